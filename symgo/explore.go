package main

import (
	"fmt"
	"io"
	"sync/atomic"
	"os"
	"runtime/debug"
	"sort"
	"strings"
	"time"

	"golang.org/x/tools/go/ssa"
)

var smtLogN int32

func NewExec(ld *Loaded, solverKind string, timeoutMs int) (*Exec, error) {
	tt := NewTerms()
	var logw io.Writer
	if p := os.Getenv("SYMGO_SMTLOG"); p != "" {
		f, _ := os.Create(fmt.Sprintf("%s.%d", p, atomic.AddInt32(&smtLogN, 1)))
		logw = f
	}
	s, err := NewSolver(solverKind, tt, timeoutMs, logw)
	if err != nil {
		return nil, err
	}
	e := &Exec{prog: ld.prog, ld: ld, tt: tt, solver: s,
		PathsByKind: map[OutcomeKind]int{}, Covered: map[string]int{}, vioKeys: map[string]int{},
		FuncsSeen: map[*ssa.Function]bool{}, IntrinsicsUsed: map[string]bool{}, CutsUsed: map[string]bool{},
		Unsupported: map[string]int{}, maxSteps: 2000000, maxPaths: 2000000}
	return e, nil
}

func (e *Exec) resetPath() {
	e.pc = e.pc[:0]
	e.pcSet = map[*Term]bool{}
	e.eqSubst = map[*Term]*Term{}
	e.pos = 0
	e.gs = nil
	e.cur = nil
	e.globals = map[*ssa.Global]Ptr{}
	e.steps = 0
	e.nondets = nil
	e.nondetN = 0
	e.covers = map[string]bool{}
	e.shape = nil
	e.objID = 0
	e.preempts = 0
	e.observes = nil
	e.sentinels = map[string]*ErrVal{}
	e.ghost = map[string]Value{}
	e.initDone = map[*ssa.Package]bool{}
	e.inInit = false
	e.pathVio = 0
	e.envLog = nil
	e.envResults = map[string]*Term{}
	e.serverClosed = map[Ptr]bool{}
	e.ctxTimeouts = nil
	e.timerDurs = nil
	e.model = map[*Term]*Term{}
	e.modelOK = true
	e.tt.fresh = 0
	e.ss = &schedState{locks: map[Ptr]*lockState{}, wgs: map[Ptr]int{}, commits: map[*G]*commit{},
		parkedRecv: map[*G][]*ChanObj{}, parkedSend: map[*G][]sendOffer{}}
}

// runPath executes one path following e.trail and extending it.
func (e *Exec) runPath() (out pathEnd) {
	e.resetPath()
	defer func() {
		if r := recover(); r != nil {
			if pe, ok := r.(pathEnd); ok {
				out = pe
				return
			}
			// engine bug: report as unsupported with stack
			out = pathEnd{OutUnsupported, fmt.Sprintf("engine panic: %v\n%s", r, debug.Stack())}
		}
	}()
	main := &G{id: 0, name: "harness"}
	e.gs = []*G{main}
	e.cur = main
	e.ensureInit(e.harness.Pkg)
	main.stack = append(main.stack, e.newFrame(e.harness, nil, nil))
	for {
		g := e.cur
		if g.done || g.pending != nil {
			if g.done && g.crashed != nil {
				return e.crash(g)
			}
			if !e.schedule() {
				break
			}
			continue
		}
		e.stepG(g, false)
		if g.done && g.crashed != nil {
			return e.crash(g)
		}
	}
	return pathEnd{OutDone, ""}
}

func (e *Exec) crash(g *G) pathEnd {
	p := g.crashed
	msg := p.Runtime
	if msg == "" {
		msg = "panic(" + valueString(p.V) + ")"
	}
	pos := e.prog.Fset.Position(p.Pos)
	return pathEnd{OutPanic, fmt.Sprintf("goroutine %d (%s): %s at %s", g.id, g.name, msg, shortPos(pos.String()))}
}

func shortPos(s string) string {
	if i := strings.Index(s, "/repo/"); i >= 0 {
		return s[i+6:]
	}
	return s
}

type ExploreResult struct {
	Harness  string
	Instance int
	Paths    int
	ByKind   map[string]int
	Covered  map[string]int
	Violations []*Violation
	Inconclusive []string
	Instrs   int64
	Blocks   int64
	Stats    SolverStats
	Wall     time.Duration
	Funcs    map[string]int
	Samples  []map[string]string
	Intrinsics []string
	Cuts     []string
	MaxTrail int
}

// Explore runs the DFS over all paths of harness h, instance inst.
// Explore runs the DFS below the fixed decision prefix. wantWork/donate implement work splitting:
// when other workers are idle the shallowest unexplored alternatives are handed over.
func (e *Exec) Explore(h *HarnessCfg, inst int, deadline time.Time, prefix []Decision, wantWork func() bool, donate func([]Decision)) *ExploreResult {
	e.deadline = deadline
	if e.solver != nil {
		e.solver.deadline = deadline
	}
	t0 := time.Now()
	e.harness = h.Fn
	e.hcfg = h
	e.instance = inst
	e.trail = append([]Decision{}, prefix...)
	fixed := len(prefix)
	if h.MaxSteps > 0 {
		e.maxSteps = h.MaxSteps
	}
	maxPaths := e.maxPaths
	if h.MaxPaths > 0 {
		maxPaths = h.MaxPaths
	}
	sampled := 0
	for {
		out := e.runPath()
		e.Paths++
		e.PathsByKind[out.Kind]++
		if len(e.trail) > e.MaxTrail {
			e.MaxTrail = len(e.trail)
		}
		if e.verbose >= 2 {
			fmt.Fprintf(os.Stderr, "path %d: %s %s trail=%v\n", e.Paths, out.Kind, out.Msg, trailChoices(e.trail))
		}
		switch out.Kind {
		case OutDone:
			for l := range e.covers {
				e.Covered[l]++
			}
			if sampled < 3 && len(e.nondets) > 0 && e.pathVio == 0 {
				sampled++
				e.sample()
			}
		case OutPanic:
			if !h.AllowPanic {
				e.recordViolation("panic", panicLabel(out.Msg), out.Msg, nil)
			}
		case OutDeadlock:
			e.recordViolation("deadlock", "deadlock", out.Msg, nil)
		case OutUnsupported, OutBound:
			if len(e.Inconclusive) < 20 {
				e.Inconclusive = append(e.Inconclusive, out.Kind.String()+": "+firstLine(out.Msg))
			}
			if e.verbose >= 1 {
				fmt.Fprintf(os.Stderr, "[%s#%d] %s: %s\n", h.Name, inst, out.Kind, out.Msg)
			}
		}
		// hand over work when others are idle
		if wantWork != nil && wantWork() {
			for i := fixed; i < len(e.trail); i++ {
				d := e.trail[i]
				if d.Choice+1 >= d.limit() {
					continue
				}
				for a := d.Choice + 1; a < d.limit(); a++ {
					np := append([]Decision{}, e.trail[:i+1]...)
					np[i].Choice = a
					np[i].Checked = !np[i].Solver
					np[i].Lim = 0
					for k := range np {
						np[k].AltModel = nil // terms belong to the donor's store
					}
					donate(np)
				}
				e.trail[i].Lim = d.Choice + 1
				break
			}
		}
		// backtrack
		i := len(e.trail) - 1
		for i >= fixed && e.trail[i].Choice+1 >= e.trail[i].limit() {
			i--
		}
		if i < fixed {
			break
		}
		e.trail = e.trail[:i+1]
		e.trail[i].Choice++
		e.trail[i].Checked = !e.trail[i].Solver
		if e.Paths >= maxPaths {
			e.Inconclusive = append(e.Inconclusive, fmt.Sprintf("bound: path budget %d exhausted", maxPaths))
			break
		}
		if atomic.LoadInt32(&memExceeded) != 0 {
			e.Inconclusive = append(e.Inconclusive, "bound: memory budget exceeded")
			break
		}
		if !deadline.IsZero() && time.Now().After(deadline) {
			e.Inconclusive = append(e.Inconclusive, "bound: time budget exhausted")
			break
		}
	}
	res := &ExploreResult{Harness: h.Name, Instance: inst, Paths: e.Paths, ByKind: map[string]int{}, Covered: e.Covered,
		Violations: e.Violations, Inconclusive: e.Inconclusive, Instrs: e.Instrs, Blocks: e.Blocks, Stats: e.solver.Stats,
		Wall: time.Since(t0), Funcs: map[string]int{}, Samples: e.Samples, MaxTrail: e.MaxTrail}
	for k, v := range e.PathsByKind {
		res.ByKind[k.String()] = v
	}
	for f := range e.FuncsSeen {
		n := 0
		for _, b := range f.Blocks {
			n += len(b.Instrs)
		}
		res.Funcs[f.String()] = n
	}
	for k := range e.IntrinsicsUsed {
		res.Intrinsics = append(res.Intrinsics, k)
	}
	sort.Strings(res.Intrinsics)
	for k := range e.CutsUsed {
		res.Cuts = append(res.Cuts, k)
	}
	sort.Strings(res.Cuts)
	return res
}

func firstLine(s string) string {
	if i := strings.IndexByte(s, '\n'); i >= 0 {
		return s[:i]
	}
	return s
}

func panicLabel(msg string) string {
	// stable label: text after "): " up to " at "
	if i := strings.Index(msg, "): "); i >= 0 {
		msg = msg[i+3:]
	}
	at := ""
	if i := strings.LastIndex(msg, " at "); i >= 0 {
		at = msg[i+4:]
		msg = msg[:i]
	}
	if i := strings.Index(msg, " ["); i >= 0 {
		msg = msg[:i] // drop concrete bounds/values from the label
	}
	if len(msg) > 60 {
		msg = msg[:60]
	}
	// keep file:line (without column) of the panic site so that different sites are different findings
	if j := strings.LastIndex(at, ":"); j >= 0 {
		at = at[:j]
	}
	return "panic:" + msg + "@" + at
}

func trailChoices(tr []Decision) []int {
	r := make([]int, len(tr))
	for i, d := range tr {
		r[i] = d.Choice
	}
	return r
}

// sample records a model of the current (completed) path for evidence.
func (e *Exec) sample() {
	if e.solver.Check(e.pc) != "sat" {
		return
	}
	var ts []*Term
	for _, nv := range e.nondets {
		if !nv.t.IsConst() {
			ts = append(ts, nv.t)
		}
	}
	if len(ts) > 24 {
		ts = ts[:24]
	}
	vals, err := e.solver.Values(ts)
	if err != nil {
		return
	}
	m := map[string]string{}
	for i, t := range ts {
		m[t.S] = termGoValue(vals[i])
	}
	var cs []string
	for c := range e.covers {
		cs = append(cs, c)
	}
	sort.Strings(cs)
	m["_covers"] = strings.Join(cs, ",")
	m["_harness"] = fmt.Sprintf("%s#%d", e.hcfg.Name, e.instance)
	e.Samples = append(e.Samples, m)
}
