package main

import (
	"fmt"
	"go/types"
	"sort"
	"strings"

	"golang.org/x/tools/go/ssa"
)

type intrinsicFn func(e *Exec, g *G, fn *ssa.Function, args []Value) (Value, bool)

var intrinsics = map[string]intrinsicFn{}

// ---------- builtins ----------

func (e *Exec) callBuiltin(g *G, b *ssa.Builtin, args []Value, instr ssa.Instruction) Value {
	tt := e.tt
	switch b.Name() {
	case "len":
		return e.lenOf(args[0])
	case "cap":
		return e.capOf(args[0])
	case "append":
		return e.builtinAppend(g, args[0], args[1])
	case "copy":
		return e.builtinCopy(g, args[0], args[1])
	case "delete":
		m := args[0].(*MapObj)
		e.mapDelete(m, args[1])
		return nil
	case "close":
		e.closeChan(g, args[0].(*ChanObj))
		return nil
	case "recover":
		// valid only when called directly by a deferred function whose deferrer is panicking
		fr := g.top()
		if fr != nil && fr.deferOf != nil && fr.deferOf.panicv != nil {
			p := fr.deferOf.panicv
			fr.deferOf.panicv = nil
			fr.deferOf.recovered = true
			if p.Runtime != "" {
				ev := &ErrVal{ID: e.newID(), Name: "runtime error: " + p.Runtime, Msg: tt.Str("runtime error: " + p.Runtime)}
				return Iface{T: errValType, V: ev}
			}
			if iv, ok := p.V.(Iface); ok {
				return iv
			}
			return Iface{}
		}
		return Iface{}
	case "print", "println":
		return nil
	case "min", "max":
		r := args[0].(*Term)
		for _, a := range args[1:] {
			x := a.(*Term)
			var lt *Term
			switch r.Sort.K {
			case KStr:
				lt = tt.StrLt(x, r)
			case KFP:
				lt = tt.FPCmp("fp.lt", x, r)
			default:
				// signedness from the builtin's signature
				signed := true
				if sig, ok := b.Type().(*types.Signature); ok && sig.Params().Len() > 0 {
					if bt := basicOf(sig.Params().At(0).Type()); bt != nil {
						_, signed, _ = intWidth(bt)
					}
				}
				if signed {
					lt = tt.BVCmp("bvslt", x, r)
				} else {
					lt = tt.BVCmp("bvult", x, r)
				}
			}
			if b.Name() == "max" {
				r = tt.Ite(lt, r, x)
			} else {
				r = tt.Ite(lt, x, r)
			}
		}
		return r
	case "clear":
		switch x := args[0].(type) {
		case *MapObj:
			if x != nil {
				for _, en := range x.Entries {
					en.Live = false
				}
			}
		}
		return nil
	case "ssa:wrapnilchk":
		p := args[0].(Ptr)
		if p == nil {
			e.runtimePanic(g, "value method called using nil pointer")
		}
		return p
	}
	e.unsupported("builtin %s", b.Name())
	return nil
}

func (e *Exec) builtinAppend(g *G, a, b Value) Value {
	switch s := a.(type) {
	case Slice:
		var xs []Value
		switch t := b.(type) {
		case Slice:
			xs = t
		case *Term: // append([]byte, string...)
			bs := e.strToBytes(t).(Slice)
			xs = bs
		case *SymBytes:
			if t == nil || t.Nil {
				return s
			}
			return e.appendSymBytes(g, e.sliceToSymBytes(s), t)
		default:
			panic(fmt.Sprintf("append: %T", b))
		}
		if len(xs) == 0 {
			return s
		}
		n := len(s) + len(xs)
		if n <= cap(s) {
			r := s[:n]
			for i, x := range xs {
				r[len(s)+i] = copyVal(x)
			}
			return r
		}
		nc := 2 * cap(s)
		if nc < n {
			nc = n
		}
		r := make(Slice, n, nc)
		for i, x := range s {
			r[i] = x
		}
		for i, x := range xs {
			r[len(s)+i] = copyVal(x)
		}
		// spare capacity holds zero values of the element kind (copy of the last appended's zero)
		if nc > n {
			var z Value
			switch el := xs[0].(type) {
			case *Term:
				switch el.Sort.K {
				case KBV:
					z = e.tt.BV(el.Sort.W, 0)
				case KStr:
					z = e.tt.Str("")
				case KBool:
					z = e.tt.False
				case KFP:
					z = e.tt.FP(0)
				}
			case Ptr:
				z = Ptr(nil)
			case Iface:
				z = Iface{}
			}
			full := r[:nc]
			for i := n; i < nc; i++ {
				if z != nil {
					full[i] = z
				} else {
					full[i] = spareMarker{}
				}
			}
		}
		return r
	case *SymBytes:
		switch t := b.(type) {
		case *SymBytes:
			return e.appendSymBytes(g, s, t)
		case Slice:
			return e.appendSymBytes(g, s, e.sliceToSymBytes(t))
		case *Term:
			return e.appendSymBytes(g, s, e.sliceToSymBytes(e.strToBytes(t).(Slice)))
		}
	}
	panic(fmt.Sprintf("append: %T %T", a, b))
}

// spareMarker fills spare capacity of grown slices whose element zero value is not known
// syntactically (aggregates); reading it is reported as unsupported.
type spareMarker struct{}

func (e *Exec) builtinCopy(g *G, dst, src Value) Value {
	tt := e.tt
	switch d := dst.(type) {
	case Slice:
		var xs []Value
		switch s := src.(type) {
		case Slice:
			xs = s
		case *Term:
			xs = e.strToBytes(s).(Slice)
		case *SymBytes:
			return e.copySymToSlice(g, d, s)
		}
		n := len(d)
		if len(xs) < n {
			n = len(xs)
		}
		// handle overlap like memmove
		tmp := make([]Value, n)
		for i := 0; i < n; i++ {
			tmp[i] = copyVal(xs[i])
		}
		for i := 0; i < n; i++ {
			d[i] = tmp[i]
		}
		return tt.BV(64, uint64(n))
	case *SymBytes:
		switch s := src.(type) {
		case *SymBytes:
			return e.copySymBytes(g, d, s)
		case Slice:
			return e.copySliceToSym(g, d, s)
		case *Term:
			return e.copySliceToSym(g, d, e.strToBytes(s).(Slice))
		}
	}
	panic(fmt.Sprintf("copy: %T %T", dst, src))
}

// ---------- harness API ----------

func isHarnessFunc(fn *ssa.Function) bool {
	if fn.Pkg == nil {
		return false
	}
	pos := fn.Pos()
	if !pos.IsValid() {
		return false
	}
	f := fn.Prog.Fset.Position(pos).Filename
	return strings.Contains(f, "zz_verif")
}

func (e *Exec) newNondet(kind string, s Sort) *Term {
	e.nondetN++
	name := fmt.Sprintf("%s!%d", kind, e.nondetN)
	t := e.tt.Var(name, s)
	if s.K == KStr {
		if _, ok := e.tt.VarAxioms[name]; !ok {
			// printable ASCII without '"' and '\\' keeps replay files simple
			e.tt.VarAxioms[name] = e.tt.mk("str.in_re", SBool, t, e.asciiRe())
		}
	}
	e.nondets = append(e.nondets, nondetVar{kind: kind, t: t})
	return t
}

func (e *Exec) asciiRe() *Term {
	tt := e.tt
	lo := tt.Str(" ")
	hi := tt.Str("~")
	rng := tt.mk("re.range", Sort{K: KStr, W: 1}, lo, hi)
	return tt.mk("re.*", Sort{K: KStr, W: 2}, rng)
}

func harnessAPI(e *Exec, g *G, fn *ssa.Function, args []Value) (Value, bool) {
	tt := e.tt
	switch fn.Name() {
	case "nondetBool":
		return e.newNondet("bool", SBool), true
	case "nondetInt", "nondetInt64":
		return e.newNondet("int64", BVSort(64)), true
	case "nondetUint64":
		return e.newNondet("uint64", BVSort(64)), true
	case "nondetInt32":
		return e.newNondet("int32", BVSort(32)), true
	case "nondetUint32":
		return e.newNondet("uint32", BVSort(32)), true
	case "nondetByte":
		return e.newNondet("byte", BVSort(8)), true
	case "nondetString":
		return e.newNondet("string", SStr), true
	case "choose":
		n := args[0].(*Term)
		if !n.IsConst() {
			e.unsupported("choose with symbolic bound")
		}
		// a concrete fork, recorded as nondet for replay
		c := e.chooseN(int(n.U), "choose")
		e.nondets = append(e.nondets, nondetVar{kind: "choose", t: tt.BV(64, uint64(c))})
		return tt.BV(64, uint64(c)), true
	case "instance":
		return tt.BV(64, uint64(e.instance)), true
	case "assume":
		e.assume(args[0].(*Term))
		return nil, true
	case "vassert":
		lbl, _ := args[1].(*Term).ConstStr()
		e.vassert(g, args[0].(*Term), lbl)
		return nil, true
	case "cover":
		lbl, _ := args[0].(*Term).ConstStr()
		e.covers[lbl] = true
		return nil, true
	case "shape":
		lbl, _ := args[0].(*Term).ConstStr()
		e.shape = append(e.shape, lbl)
		return nil, true
	case "observe":
		lbl, _ := args[0].(*Term).ConstStr()
		e.observes = append(e.observes, lbl+"="+valueString(args[1]))
		return nil, true
	case "band":
		return tt.And(args[0].(*Term), args[1].(*Term)), true
	case "bor":
		return tt.Or(args[0].(*Term), args[1].(*Term)), true
	case "bnot":
		return tt.Not(args[0].(*Term)), true
	case "bimp":
		return tt.Implies(args[0].(*Term), args[1].(*Term)), true
	case "ifStr", "ifInt":
		return tt.Ite(args[0].(*Term), args[1].(*Term), args[2].(*Term)), true
	case "trimDash":
		k := args[0].(*Term)
		n := tt.StrLen(k)
		return tt.Ite(tt.PrefixOf(tt.Str("-"), k), tt.SubStr(k, tt.Int(1), tt.ISub(n, tt.Int(1))), k), true
	case "hasDash":
		return tt.PrefixOf(tt.Str("-"), args[0].(*Term)), true
	case "coverIf":
		lbl, _ := args[1].(*Term).ConstStr()
		c := args[0].(*Term)
		if e.covers[lbl] {
			return nil, true
		}
		if b, ok := c.ConstBool(); ok {
			if b {
				e.covers[lbl] = true
			}
			return nil, true
		}
		if mv, ok := e.evalModel(c); ok && mv {
			e.covers[lbl] = true
			e.Covered[lbl]++
		} else if e.check(c) == "sat" {
			e.covers[lbl] = true
			e.Covered[lbl]++
		}
		return nil, true
	case "envKeyOf":
		x := args[0].(*Term)
		idx := tt.IndexOf(x, tt.Str("="), tt.Int(0))
		return tt.Ite(tt.Contains(x, tt.Str("=")), tt.SubStr(x, tt.Int(0), idx), x), true
	case "envValOf":
		x := args[0].(*Term)
		idx := tt.IndexOf(x, tt.Str("="), tt.Int(0))
		off := tt.IAdd(idx, tt.Int(1))
		return tt.Ite(tt.Contains(x, tt.Str("=")), tt.SubStr(x, off, tt.ISub(tt.StrLen(x), off)), tt.Str("")), true
	case "hasPrefixStr":
		return tt.PrefixOf(args[1].(*Term), args[0].(*Term)), true
	case "verifNoop":
		return nil, true
	case "envRPC":
		// distinct opaque client / server objects (only their identity matters to the models)
		c, sv := new(Value), new(Value)
		*c, *sv = Struct{}, Struct{}
		return Tuple{Ptr(c), Ptr(sv)}, true
	case "ctxTimeoutCount":
		return tt.BV(64, uint64(len(e.ctxTimeouts))), true
	case "timerCount":
		return tt.BV(64, uint64(len(e.timerDurs))), true
	case "timerNs":
		// duration handed to the i-th time.After call of this execution
		i, ok := args[0].(*Term).ConstU()
		if !ok || int(i) >= len(e.timerDurs) {
			return tt.BV(64, ^uint64(0)), true
		}
		return e.timerDurs[i], true
	case "ctxTimeoutNs":
		// duration handed to the innermost context.WithTimeout this context descends from (-1: none)
		if ifc, ok := args[0].(Iface); ok {
			for c, _ := ifc.V.(*GoObj); c != nil; {
				if d, ok := c.Attrs["timeout"].(*Term); ok {
					return d, true
				}
				pi, ok := c.Attrs["parent"].(Iface)
				if !ok {
					break
				}
				c, _ = pi.V.(*GoObj)
			}
		}
		return tt.BV(64, ^uint64(0)), true
	case "strLen":
		return tt.I2BV(64, tt.StrLen(args[0].(*Term))), true
	case "envLogCount":
		n, _ := args[0].(*Term).ConstStr()
		c := 0
		for _, r := range e.envLog {
			if r.name == n {
				c++
			}
		}
		return tt.BV(64, uint64(c)), true
	case "envLogStr", "envLogInt":
		n, _ := args[0].(*Term).ConstStr()
		ci, ai := int(args[1].(*Term).U), int(args[2].(*Term).U)
		c := 0
		for _, r := range e.envLog {
			if r.name == n {
				if c == ci {
					if ai < len(r.args) {
						if t, ok := r.args[ai].(*Term); ok {
							if fn.Name() == "envLogInt" && t.Sort.K == KBV && t.Sort.W != 64 {
								return tt.ZExt(64, t), true
							}
							return t, true
						}
					}
					e.unsupported("envLog argument %d of %s is not a scalar", ai, n)
				}
				c++
			}
		}
		e.fail(OutAssumeFalse, "no such env call")
		return nil, true
	case "envSetResult":
		n, _ := args[0].(*Term).ConstStr()
		e.envResults[n] = args[1].(*Term)
		return nil, true
	case "atoiStr":
		return tt.I2BV(64, tt.StrToInt(args[0].(*Term))), true
	case "nondetBytes":
		n := args[0].(*Term)
		m := e.newByteMem(false)
		return &SymBytes{Mem: m, Off: tt.BV(64, 0), Len: n, Cap: n}, true
	case "clientOnClose":
		// read the unexported userCloseFunc field of a *ttrpc.Client built by the harness model
		p, _ := args[0].(Ptr)
		if p == nil {
			return (*ssa.Function)(nil), true
		}
		st := (*p).(Struct)
		ct := fn.Signature.Params().At(0).Type().(*types.Pointer).Elem().Underlying().(*types.Struct)
		for i := 0; i < ct.NumFields(); i++ {
			if ct.Field(i).Name() == "userCloseFunc" {
				return st[i], true
			}
		}
		e.unsupported("ttrpc.Client has no userCloseFunc field")
		return nil, true
	case "containsSlash":
		return tt.Contains(args[0].(*Term), tt.Str("/")), true
	case "containsEq":
		return tt.Contains(args[0].(*Term), tt.Str("=")), true
	case "verifReach":
		return nil, true
	case "symbolicMode":
		return tt.True, true
	case "heldByMe":
		var p Ptr
		switch a := args[0].(type) {
		case Ptr:
			p = a
		case Iface:
			p, _ = a.V.(Ptr)
		}
		l := e.lockOf(p)
		return tt.Bool(l.writer == g), true
	case "lockHeld", "readLockHeld":
		var p Ptr
		switch a := args[0].(type) {
		case Ptr:
			p = a
		case Iface:
			p, _ = a.V.(Ptr)
		}
		l := e.lockOf(p)
		if fn.Name() == "lockHeld" {
			return tt.Bool(l.writer != nil), true
		}
		return tt.Bool(l.nread > 0), true
	case "schedpoint":
		return nil, true
	case "goid":
		return tt.BV(64, uint64(g.id)), true
	case "sameObject":
		a, b := args[0].(Iface), args[1].(Iface)
		return e.sameObject(a.V, b.V), true
	case "disjointHeap":
		a, b := args[0].(Iface), args[1].(Iface)
		return tt.Bool(e.disjointHeap(a.V, b.V)), true
	case "makeError":
		lbl, _ := args[0].(*Term).ConstStr()
		ev := &ErrVal{ID: e.newID(), Name: lbl}
		return Iface{T: errValType, V: ev}, true
	case "sentinelError":
		lbl, _ := args[0].(*Term).ConstStr()
		return Iface{T: errValType, V: e.sentinel(lbl)}, true
	case "wrapError":
		inner := args[0].(Iface)
		ev := &ErrVal{ID: e.newID(), Name: "wrap", Wraps: []Value{inner}}
		return Iface{T: errValType, V: ev}, true
	}
	return nil, false
}

func (e *Exec) sameObject(a, b Value) *Term {
	switch x := a.(type) {
	case Ptr:
		y, ok := b.(Ptr)
		return e.tt.Bool(ok && x == y)
	case Slice:
		y, ok := b.(Slice)
		if !ok {
			return e.tt.False
		}
		if len(x) != len(y) {
			return e.tt.False
		}
		if len(x) == 0 {
			return e.tt.Bool((x == nil) == (y == nil))
		}
		return e.tt.Bool(&x[0] == &y[0])
	case *MapObj:
		y, ok := b.(*MapObj)
		return e.tt.Bool(ok && x == y)
	}
	return e.eqValues(a, b)
}

// reach collects mutable heap objects reachable from v.
func reach(v Value, seen map[interface{}]bool) {
	switch x := v.(type) {
	case Ptr:
		if x == nil || seen[x] {
			return
		}
		seen[x] = true
		reach(*x, seen)
	case Struct:
		for i := range x {
			reach(x[i], seen)
		}
	case Array:
		for i := range x {
			reach(x[i], seen)
		}
	case Slice:
		for i := range x {
			seen[&x[i]] = true
			reach(x[i], seen)
		}
	case *MapObj:
		if x == nil || seen[x] {
			return
		}
		seen[x] = true
		for _, en := range x.live() {
			reach(en.K, seen)
			reach(en.V, seen)
		}
	case Iface:
		reach(x.V, seen)
	}
}

func (e *Exec) disjointHeap(a, b Value) bool {
	sa, sb := map[interface{}]bool{}, map[interface{}]bool{}
	reach(a, sa)
	reach(b, sb)
	for k := range sa {
		if sb[k] {
			return false
		}
	}
	return true
}

// vassert checks an assertion on the current path.
func (e *Exec) vassert(g *G, c *Term, label string) {
	if b, ok := c.ConstBool(); ok && b {
		return
	}
	neg := e.tt.Not(c)
	r := "sat"
	if _, ok := c.ConstBool(); !ok {
		if mv, ok := e.evalModel(c); ok && mv {
			// model satisfies c: still must ask whether the negation is satisfiable
			r = e.check(neg)
		} else {
			r = e.checkM(neg)
		}
	}
	if r == "sat" {
		e.recordViolation("assert", label, "assertion failed: "+label, neg)
	}
	if _, ok := c.ConstBool(); ok {
		e.fail(OutAssumeFalse, "assertion always false here")
	}
	// continue on the side where the assertion holds
	if r == "unsat" {
		e.pc = append(e.pc, c) // harmless; implied
		return
	}
	e.assume(c)
}

func (e *Exec) recordViolation(kind, label, msg string, extra *Term) {
	key := e.hcfg.Name + ":" + kind + ":" + label + ":" + strings.Join(e.shape, ",")
	e.vioKeys[key]++
	e.pathVio++
	if e.vioKeys[key] > 3 {
		return
	}
	v := &Violation{Instance: e.instance, Label: label, Kind: kind, Msg: msg, Key: key, Shape: append([]string{}, e.shape...)}
	// model
	pc := e.pc
	if extra != nil {
		pc = append(append([]*Term{}, e.pc...), extra)
	}
	if e.solver.Check(pc) == "sat" {
		var ts []*Term
		for _, nv := range e.nondets {
			ts = append(ts, nv.t)
		}
		vals, err := e.solver.Values(ts)
		if err == nil {
			for i, nv := range e.nondets {
				v.Nondets = append(v.Nondets, NondetRec{Kind: nv.kind, Name: nv.t.SMT(), Value: termGoValue(vals[i])})
			}
		} else {
			v.Msg += " (model unavailable: " + err.Error() + ")"
		}
	}
	for _, d := range e.trail[:min(e.pos, len(e.trail))] {
		v.Trail = append(v.Trail, d.Choice)
	}
	e.Violations = append(e.Violations, v)
}

// termGoValue renders a constant term as a plain string for replay files.
func termGoValue(t *Term) string {
	switch t.Sort.K {
	case KBool:
		if t.B {
			return "true"
		}
		return "false"
	case KBV:
		return fmt.Sprintf("%d", t.U)
	case KInt:
		return fmt.Sprintf("%d", t.I)
	case KStr:
		return t.S
	}
	return t.SMT()
}

// ---------- library intrinsics ----------

func (e *Exec) anySymbolic(vs ...Value) bool {
	for _, v := range vs {
		if e.hasSymbolic(v, 0) {
			return true
		}
	}
	return false
}

func (e *Exec) hasSymbolic(v Value, depth int) bool {
	if depth > 6 {
		return true
	}
	switch x := v.(type) {
	case *Term:
		return !x.IsConst()
	case Slice:
		for _, el := range x {
			if e.hasSymbolic(el, depth+1) {
				return true
			}
		}
	case Iface:
		return e.hasSymbolic(x.V, depth+1)
	case Struct:
		for _, el := range x {
			if e.hasSymbolic(el, depth+1) {
				return true
			}
		}
	case Ptr:
		if x != nil {
			return e.hasSymbolic(*x, depth+1)
		}
	case *ErrVal:
		return true
	}
	return false
}

func (e *Exec) newErr(name string, wraps []Value) Value {
	return Iface{T: errValType, V: &ErrVal{ID: e.newID(), Name: name, Wraps: wraps}}
}

func strSliceOf(v Value) []*Term {
	s := v.(Slice)
	r := make([]*Term, len(s))
	for i, x := range s {
		r[i] = x.(*Term)
	}
	return r
}

func (e *Exec) mkStrSlice(ts []*Term) Slice {
	r := make(Slice, len(ts))
	for i, t := range ts {
		r[i] = t
	}
	return r
}

func (e *Exec) errIs(err Value, target Value, depth int) bool {
	if depth > 8 {
		return false
	}
	a, ok := err.(Iface)
	if !ok || a.T == nil {
		return false
	}
	tg := target.(Iface)
	if c, ok := e.eqValues(a, tg).ConstBool(); ok && c {
		return true
	}
	if ev, ok := a.V.(*ErrVal); ok {
		for _, w := range ev.Wraps {
			if e.errIs(w, target, depth+1) {
				return true
			}
		}
		return false
	}
	// real Go error type with Unwrap method: execute it
	if um := e.methodByName(a.T, "Unwrap"); um != nil {
		if um.Signature.Results().Len() == 1 && isErrorType(um.Signature.Results().At(0).Type()) {
			inner := e.callSync(e.cur, um, []Value{a.V})
			return e.errIs(inner, target, depth+1)
		}
	}
	return false
}

func (e *Exec) methodByName(t types.Type, name string) *ssa.Function {
	ms := e.prog.MethodSets.MethodSet(t)
	for i := 0; i < ms.Len(); i++ {
		if ms.At(i).Obj().Name() == name {
			return e.prog.MethodValue(ms.At(i))
		}
	}
	return nil
}

func init() {
	reg := func(name string, f intrinsicFn) { intrinsics[name] = f }

	// --- fmt / errors ---
	reg("fmt.Errorf", func(e *Exec, g *G, fn *ssa.Function, args []Value) (Value, bool) {
		var wraps []Value
		if format, ok := args[0].(*Term).ConstStr(); ok && strings.Contains(format, "%w") {
			for _, a := range args[1].(Slice) {
				if iv, ok := a.(Iface); ok && iv.T != nil {
					if _, isErr := iv.V.(*ErrVal); isErr || e.methodByName(iv.T, "Error") != nil {
						wraps = append(wraps, iv)
					}
				}
			}
		}
		return e.newErr("fmt.Errorf@"+e.posOf(g), wraps), true
	})
	reg("errors.New", func(e *Exec, g *G, fn *ssa.Function, args []Value) (Value, bool) {
		ev := &ErrVal{ID: e.newID(), Name: "errors.New@" + e.posOf(g)}
		if t, ok := args[0].(*Term); ok {
			ev.Msg = t
		}
		return Iface{T: errValType, V: ev}, true
	})
	reg("errors.Is", func(e *Exec, g *G, fn *ssa.Function, args []Value) (Value, bool) {
		return e.tt.Bool(e.errIs(args[0], args[1], 0)), true
	})
	reg("errors.As", func(e *Exec, g *G, fn *ssa.Function, args []Value) (Value, bool) {
		tgt := args[1].(Iface)
		pt, ok := tgt.T.(*types.Pointer)
		if !ok {
			e.unsupported("errors.As target %v", tgt.T)
		}
		want := pt.Elem()
		cur := args[0]
		for depth := 0; depth < 8; depth++ {
			iv, ok := cur.(Iface)
			if !ok || iv.T == nil {
				break
			}
			match := false
			if it, isIface := want.Underlying().(*types.Interface); isIface {
				match = e.implements(iv, it)
			} else {
				match = types.Identical(iv.T, want)
			}
			if match {
				if _, isIface := want.Underlying().(*types.Interface); isIface {
					storeInto(tgt.V.(Ptr), iv)
				} else {
					storeInto(tgt.V.(Ptr), iv.V)
				}
				return e.tt.True, true
			}
			if ev, ok := iv.V.(*ErrVal); ok {
				if len(ev.Wraps) == 0 {
					break
				}
				cur = ev.Wraps[0]
				continue
			}
			if um := e.methodByName(iv.T, "Unwrap"); um != nil && um.Signature.Results().Len() == 1 && isErrorType(um.Signature.Results().At(0).Type()) {
				cur = e.callSync(g, um, []Value{iv.V})
				continue
			}
			break
		}
		return e.tt.False, true
	})
	reg("google.golang.org/grpc/status.Errorf", func(e *Exec, g *G, fn *ssa.Function, args []Value) (Value, bool) {
		ev := &ErrVal{ID: e.newID(), Name: "grpc-status", Attrs: map[string]Value{"grpc-code": args[0]}}
		return Iface{T: errValType, V: ev}, true
	})
	intrinsics["google.golang.org/grpc/status.Error"] = intrinsics["google.golang.org/grpc/status.Errorf"]
	reg("google.golang.org/grpc/status.Code", func(e *Exec, g *G, fn *ssa.Function, args []Value) (Value, bool) {
		cur := args[0]
		for depth := 0; depth < 8; depth++ {
			iv, ok := cur.(Iface)
			if !ok || iv.T == nil {
				if depth == 0 {
					return e.tt.BV(32, 0), true // codes.OK
				}
				break
			}
			if ev, ok := iv.V.(*ErrVal); ok {
				if c, ok := ev.Attrs["grpc-code"]; ok {
					return c, true
				}
				if len(ev.Wraps) == 0 {
					break
				}
				cur = ev.Wraps[0]
				continue
			}
			if um := e.methodByName(iv.T, "Unwrap"); um != nil && um.Signature.Results().Len() == 1 && isErrorType(um.Signature.Results().At(0).Type()) {
				cur = e.callSync(g, um, []Value{iv.V})
				continue
			}
			break
		}
		return e.tt.BV(32, 2), true // codes.Unknown
	})
	reg("errors.Unwrap", func(e *Exec, g *G, fn *ssa.Function, args []Value) (Value, bool) {
		a := args[0].(Iface)
		if ev, ok := a.V.(*ErrVal); ok && len(ev.Wraps) > 0 {
			return ev.Wraps[0], true
		}
		return Iface{}, true
	})
	sprintf := func(e *Exec, g *G, fn *ssa.Function, args []Value) (Value, bool) {
		format, ok := args[0].(*Term).ConstStr()
		va := args[1].(Slice)
		if ok {
			if r, ok := e.symSprintf(format, va); ok {
				return r, true
			}
		}
		return e.freshString("sprintf"), true
	}
	reg("fmt.Sprintf", sprintf)
	reg("fmt.Sprint", func(e *Exec, g *G, fn *ssa.Function, args []Value) (Value, bool) {
		va := args[0].(Slice)
		if len(va) == 1 {
			if iv, ok := va[0].(Iface); ok {
				if t, ok := iv.V.(*Term); ok && t.Sort.K == KStr {
					return t, true
				}
			}
		}
		return e.freshString("sprint"), true
	})
	for _, n := range []string{"fmt.Printf", "fmt.Println", "fmt.Print", "fmt.Fprintf", "fmt.Fprintln", "fmt.Fprint"} {
		reg(n, func(e *Exec, g *G, fn *ssa.Function, args []Value) (Value, bool) {
			return Tuple{e.tt.BV(64, 0), Iface{}}, true
		})
	}

	// --- strings ---
	reg("strings.HasPrefix", func(e *Exec, g *G, fn *ssa.Function, args []Value) (Value, bool) {
		return e.tt.PrefixOf(args[1].(*Term), args[0].(*Term)), true
	})
	reg("strings.HasSuffix", func(e *Exec, g *G, fn *ssa.Function, args []Value) (Value, bool) {
		return e.tt.SuffixOf(args[1].(*Term), args[0].(*Term)), true
	})
	reg("strings.Contains", func(e *Exec, g *G, fn *ssa.Function, args []Value) (Value, bool) {
		return e.tt.Contains(args[0].(*Term), args[1].(*Term)), true
	})
	reg("strings.Index", func(e *Exec, g *G, fn *ssa.Function, args []Value) (Value, bool) {
		return e.tt.I2BV(64, e.tt.IndexOf(args[0].(*Term), args[1].(*Term), e.tt.Int(0))), true
	})
	reg("strings.IndexByte", func(e *Exec, g *G, fn *ssa.Function, args []Value) (Value, bool) {
		return e.tt.I2BV(64, e.tt.IndexOf(args[0].(*Term), e.byteToStr(args[1].(*Term)), e.tt.Int(0))), true
	})
	reg("strings.TrimPrefix", func(e *Exec, g *G, fn *ssa.Function, args []Value) (Value, bool) {
		tt := e.tt
		s, p := args[0].(*Term), args[1].(*Term)
		if s.IsConst() && p.IsConst() {
			return tt.Str(strings.TrimPrefix(s.S, p.S)), true
		}
		if e.branch(tt.PrefixOf(p, s)) {
			pl := tt.StrLen(p)
			return tt.SubStr(s, pl, tt.ISub(tt.StrLen(s), pl)), true
		}
		return s, true
	})
	reg("strings.TrimSuffix", func(e *Exec, g *G, fn *ssa.Function, args []Value) (Value, bool) {
		tt := e.tt
		s, p := args[0].(*Term), args[1].(*Term)
		if s.IsConst() && p.IsConst() {
			return tt.Str(strings.TrimSuffix(s.S, p.S)), true
		}
		if e.branch(tt.SuffixOf(p, s)) {
			return tt.SubStr(s, tt.Int(0), tt.ISub(tt.StrLen(s), tt.StrLen(p))), true
		}
		return s, true
	})
	reg("strings.Join", func(e *Exec, g *G, fn *ssa.Function, args []Value) (Value, bool) {
		tt := e.tt
		ts := strSliceOf(args[0])
		sep := args[1].(*Term)
		r := tt.Str("")
		for i, t := range ts {
			if i > 0 {
				r = tt.Concat(r, sep)
			}
			r = tt.Concat(r, t)
		}
		return r, true
	})
	reg("strings.SplitN", func(e *Exec, g *G, fn *ssa.Function, args []Value) (Value, bool) {
		tt := e.tt
		s, sep, n := args[0].(*Term), args[1].(*Term), args[2].(*Term)
		if s.IsConst() && sep.IsConst() && n.IsConst() {
			parts := strings.SplitN(s.S, sep.S, int(sext64(n.U, 64)))
			var ts []*Term
			for _, p := range parts {
				ts = append(ts, tt.Str(p))
			}
			if parts == nil {
				return Slice(nil), true
			}
			return e.mkStrSlice(ts), true
		}
		if !n.IsConst() || sext64(n.U, 64) != 2 || !sep.IsConst() || sep.S == "" {
			e.unsupported("strings.SplitN with symbolic arguments other than (s, const, 2)")
		}
		// s = a ++ sep ++ rest with a known not to contain sep: split syntactically
		if s.Op == "str.++" && len(s.Args) >= 2 {
			a, b := s.Args[0], s.Args[1]
			aFree := (a.IsConst() && !strings.Contains(a.S, sep.S)) || e.pcSet[tt.Not(tt.Contains(a, sep))]
			if !a.IsConst() && b.IsConst() && strings.HasPrefix(b.S, sep.S) && aFree {
				rest := tt.Str(b.S[len(sep.S):])
				for _, x := range s.Args[2:] {
					rest = tt.Concat(rest, x)
				}
				return e.mkStrSlice([]*Term{a, rest}), true
			}
		}
		if e.branch(tt.Contains(s, sep)) {
			idx := tt.IndexOf(s, sep, tt.Int(0))
			head := tt.SubStr(s, tt.Int(0), idx)
			off := tt.IAdd(idx, tt.Int(int64(len(sep.S))))
			tail := tt.SubStr(s, off, tt.ISub(tt.StrLen(s), off))
			return e.mkStrSlice([]*Term{head, tail}), true
		}
		return e.mkStrSlice([]*Term{s}), true
	})
	concreteStr := func(name string, f func(args []Value, tt *Terms) Value) {
		reg(name, func(e *Exec, g *G, fn *ssa.Function, args []Value) (Value, bool) {
			for _, a := range args {
				if e.hasSymbolic(a, 0) {
					return nil, false // fall back to SSA body
				}
			}
			return f(args, e.tt), true
		})
	}
	reg("strings.Split", func(e *Exec, g *G, fn *ssa.Function, args []Value) (Value, bool) {
		tt := e.tt
		s, sep := args[0].(*Term), args[1].(*Term)
		if s.IsConst() && sep.IsConst() {
			parts := strings.Split(s.S, sep.S)
			r := make(Slice, len(parts))
			for i, p := range parts {
				r[i] = tt.Str(p)
			}
			return r, true
		}
		if !sep.IsConst() || sep.S == "" {
			e.unsupported("strings.Split with a symbolic or empty separator")
		}
		// symbolic string, constant separator: fork on the number of separators, at most 4 (stated bound)
		var parts []*Term
		rest := s
		for k := 0; k < 4; k++ {
			if !e.branch(tt.Contains(rest, sep)) {
				parts = append(parts, rest)
				return e.mkStrSlice(parts), true
			}
			idx := tt.IndexOf(rest, sep, tt.Int(0))
			parts = append(parts, tt.SubStr(rest, tt.Int(0), idx))
			off := tt.IAdd(idx, tt.Int(int64(len(sep.S))))
			rest = tt.SubStr(rest, off, tt.ISub(tt.StrLen(rest), off))
		}
		e.fail(OutBound, "strings.Split: more than 4 separators in a symbolic string")
		return nil, true
	})
	concreteStr("strings.ToLower", func(args []Value, tt *Terms) Value { return tt.Str(strings.ToLower(args[0].(*Term).S)) })
	concreteStr("strings.ToUpper", func(args []Value, tt *Terms) Value { return tt.Str(strings.ToUpper(args[0].(*Term).S)) })
	concreteStr("strings.TrimSpace", func(args []Value, tt *Terms) Value { return tt.Str(strings.TrimSpace(args[0].(*Term).S)) })
	concreteStr("strings.Count", func(args []Value, tt *Terms) Value {
		return tt.BV(64, uint64(strings.Count(args[0].(*Term).S, args[1].(*Term).S)))
	})
	reg("strings.Compare", func(e *Exec, g *G, fn *ssa.Function, args []Value) (Value, bool) {
		tt := e.tt
		a, b := args[0].(*Term), args[1].(*Term)
		return tt.Ite(tt.Eq(a, b), tt.BV(64, 0), tt.Ite(tt.StrLt(a, b), tt.BV(64, ^uint64(0)), tt.BV(64, 1))), true
	})
	reg("strconv.Itoa", func(e *Exec, g *G, fn *ssa.Function, args []Value) (Value, bool) {
		t := args[0].(*Term)
		if t.IsConst() {
			return e.tt.Str(fmt.Sprintf("%d", sext64(t.U, 64))), true
		}
		return e.freshString("itoa"), true
	})

	// --- sort ---
	reg("sort.Strings", func(e *Exec, g *G, fn *ssa.Function, args []Value) (Value, bool) {
		s := args[0].(Slice)
		e.insertionSort(len(s), func(i, j int) bool {
			return e.branch(e.tt.StrLt(s[i].(*Term), s[j].(*Term)))
		}, func(i, j int) { s[i], s[j] = s[j], s[i] })
		return nil, true
	})
	reg("sort.Slice", func(e *Exec, g *G, fn *ssa.Function, args []Value) (Value, bool) {
		iv := args[0].(Iface)
		s, ok := iv.V.(Slice)
		if !ok {
			e.unsupported("sort.Slice on %T", iv.V)
		}
		less := args[1]
		e.insertionSort(len(s), func(i, j int) bool {
			r := e.callSync(g, less, []Value{e.tt.BV(64, uint64(i)), e.tt.BV(64, uint64(j))})
			return e.branch(r.(*Term))
		}, func(i, j int) { s[i], s[j] = s[j], s[i] })
		return nil, true
	})
	intrinsics["sort.SliceStable"] = intrinsics["sort.Slice"]

	// --- sync/atomic ---
	load := func(e *Exec, g *G, fn *ssa.Function, args []Value) (Value, bool) {
		p := args[0].(Ptr)
		return copyVal(*p), true
	}
	store := func(e *Exec, g *G, fn *ssa.Function, args []Value) (Value, bool) {
		p := args[0].(Ptr)
		*p = args[1]
		return nil, true
	}
	add := func(e *Exec, g *G, fn *ssa.Function, args []Value) (Value, bool) {
		p := args[0].(Ptr)
		r := e.tt.BVBin("bvadd", (*p).(*Term), args[1].(*Term))
		*p = r
		return r, true
	}
	cas := func(e *Exec, g *G, fn *ssa.Function, args []Value) (Value, bool) {
		p := args[0].(Ptr)
		if e.branch(e.eqValues(*p, args[1])) {
			*p = args[2]
			return e.tt.True, true
		}
		return e.tt.False, true
	}
	swap := func(e *Exec, g *G, fn *ssa.Function, args []Value) (Value, bool) {
		p := args[0].(Ptr)
		old := *p
		*p = args[1]
		return old, true
	}
	for _, ty := range []string{"Int32", "Int64", "Uint32", "Uint64", "Uintptr", "Pointer"} {
		reg("sync/atomic.Load"+ty, load)
		reg("sync/atomic.Store"+ty, store)
		reg("sync/atomic.CompareAndSwap"+ty, cas)
		reg("sync/atomic.Swap"+ty, swap)
		if ty != "Pointer" {
			reg("sync/atomic.Add"+ty, add)
		}
	}

	ident := func(e *Exec, g *G, fn *ssa.Function, args []Value) (Value, bool) { return args[0], true }
	reg("internal/stringslite.Clone", ident)
	reg("strings.Clone", ident)
	reg("strconv.cloneString", ident)

	// --- math/bits ---
	reg("math/bits.Len64", func(e *Exec, g *G, fn *ssa.Function, args []Value) (Value, bool) {
		return e.tt.BitsLen64(args[0].(*Term)), true
	})
	reg("math/bits.Len32", func(e *Exec, g *G, fn *ssa.Function, args []Value) (Value, bool) {
		return e.tt.BitsLen64(e.tt.ZExt(64, args[0].(*Term))), true
	})
	reg("math/bits.Len", func(e *Exec, g *G, fn *ssa.Function, args []Value) (Value, bool) {
		return e.tt.BitsLen64(args[0].(*Term)), true
	})

	// --- misc ---
	reg("os.Exit", func(e *Exec, g *G, fn *ssa.Function, args []Value) (Value, bool) {
		e.fail(OutExit, "os.Exit")
		return nil, true
	})
	reg("os.Getenv", func(e *Exec, g *G, fn *ssa.Function, args []Value) (Value, bool) {
		if e.hcfg != nil && e.hcfg.Env != nil {
			if k, ok := args[0].(*Term).ConstStr(); ok {
				return e.tt.Str(e.hcfg.Env[k]), true
			}
		}
		return e.tt.Str(""), true
	})
	// environment calls recorded for OS-boundary obligations (C17, C18); results chosen by the harness
	envCall := func(name string, okResult func(e *Exec, fn *ssa.Function) Value) {
		reg(name, func(e *Exec, g *G, fn *ssa.Function, args []Value) (Value, bool) {
			e.envLog = append(e.envLog, envLogRec{name: name, args: args})
			return okResult(e, fn), true
		})
	}
	errOrNil := func(e *Exec, fn *ssa.Function) Value {
		if t, ok := e.envResults[fn.String()]; ok {
			if b, _ := t.ConstBool(); b {
				return e.newErr(fn.String()+" failed", nil)
			}
		}
		return Iface{}
	}
	envCall("os.Remove", errOrNil)
	envCall("os.MkdirAll", errOrNil)
	envCall("os.RemoveAll", errOrNil)
	reg("net.ListenUnix", func(e *Exec, g *G, fn *ssa.Function, args []Value) (Value, bool) {
		e.envLog = append(e.envLog, envLogRec{name: "net.ListenUnix", args: args})
		return Tuple{Ptr(nil), e.newErr("net.ListenUnix (environment: not available)", nil)}, true
	})
	reg("runtime.Gosched", func(e *Exec, g *G, fn *ssa.Function, args []Value) (Value, bool) { return nil, true })
	reg("os.IsNotExist", func(e *Exec, g *G, fn *ssa.Function, args []Value) (Value, bool) {
		return e.tt.Bool(e.errIs(args[0], Iface{T: errValType, V: e.sentinel("io/fs.ErrNotExist")}, 0)), true
	})
}

func (e *Exec) posOf(g *G) string {
	fr := g.top()
	if fr == nil || fr.block == nil || fr.pc >= len(fr.block.Instrs) {
		return "?"
	}
	p := e.prog.Fset.Position(fr.block.Instrs[fr.pc].Pos())
	f := p.Filename
	if i := strings.LastIndex(f, "/"); i >= 0 {
		f = f[i+1:]
	}
	return fmt.Sprintf("%s:%d", f, p.Line)
}

func (e *Exec) insertionSort(n int, less func(i, j int) bool, swap func(i, j int)) {
	for i := 1; i < n; i++ {
		for j := i; j > 0 && less(j, j-1); j-- {
			swap(j, j-1)
		}
	}
}

// symSprintf supports formats consisting of literal text, %s, %q, %d, %v on simple operands.
func (e *Exec) symSprintf(format string, va Slice) (*Term, bool) {
	tt := e.tt
	r := tt.Str("")
	ai := 0
	for i := 0; i < len(format); i++ {
		c := format[i]
		if c != '%' {
			r = tt.Concat(r, tt.Str(string(c)))
			continue
		}
		i++
		if i >= len(format) {
			return nil, false
		}
		verb := format[i]
		if verb == '%' {
			r = tt.Concat(r, tt.Str("%"))
			continue
		}
		if ai >= len(va) {
			return nil, false
		}
		iv, ok := va[ai].(Iface)
		ai++
		if !ok {
			return nil, false
		}
		t, ok := iv.V.(*Term)
		if !ok {
			return nil, false
		}
		switch {
		case (verb == 's' || verb == 'v') && t.Sort.K == KStr:
			r = tt.Concat(r, t)
		case (verb == 'd' || verb == 'v') && t.Sort.K == KBV && t.IsConst():
			bt := basicOf(iv.T)
			_, signed, _ := intWidth(bt)
			if signed {
				r = tt.Concat(r, tt.Str(fmt.Sprintf("%d", sext64(t.U, t.Sort.W))))
			} else {
				r = tt.Concat(r, tt.Str(fmt.Sprintf("%d", t.U)))
			}
		case (verb == 'd' || verb == 'v') && t.Sort.K == KBV:
			bt := basicOf(iv.T)
			_, signed, _ := intWidth(bt)
			if signed {
				return nil, false
			}
			r = tt.Concat(r, tt.StrFromInt(tt.BV2I(t)))
		default:
			return nil, false
		}
	}
	return r, true
}

var _ = sort.Strings
