package main

import (
	"go/types"

	"golang.org/x/tools/go/ssa"
)

// Engine-side objects (contexts, timers) exposed through interface method calls.

func objImplements(o *GoObj, it *types.Interface) bool {
	switch o.Kind {
	case "context":
		for i := 0; i < it.NumMethods(); i++ {
			switch it.Method(i).Name() {
			case "Done", "Err", "Deadline", "Value":
			default:
				return false
			}
		}
		return true
	}
	return false
}

func (e *Exec) callObjMethod(g *G, f *objMethod, args []Value) Value {
	tt := e.tt
	o := f.obj
	switch o.Kind {
	case "context":
		switch f.name {
		case "Done":
			if ch, ok := o.Attrs["done"].(*ChanObj); ok {
				return ch
			}
			return (*ChanObj)(nil)
		case "Err":
			if ch, ok := o.Attrs["done"].(*ChanObj); ok && ch != nil && ch.Closed {
				if ev, ok := o.Attrs["err"]; ok {
					return ev
				}
			}
			return Iface{}
		case "Value":
			return Iface{}
		case "Deadline":
			for c := o; c != nil; {
				if _, ok := c.Attrs["timeout"]; ok {
					return Tuple{e.zeroTime(), tt.True}
				}
				pi, ok := c.Attrs["parent"].(Iface)
				if !ok {
					break
				}
				c, _ = pi.V.(*GoObj)
			}
			return Tuple{e.zeroTime(), tt.False}
		}
	}
	e.unsupported("method %s on engine object %s", f.name, o.Kind)
	return nil
}

func (e *Exec) zeroTime() Value {
	// time.Time{wall uint64; ext int64; loc *Location}
	return Struct{tt64(e, 0), tt64(e, 0), Ptr(nil)}
}

func tt64(e *Exec, v uint64) *Term { return e.tt.BV(64, v) }

func (e *Exec) newContext(parent Value) *GoObj {
	return &GoObj{Kind: "context", ID: e.newID(), Attrs: map[string]Value{"parent": parent}}
}

func (e *Exec) noopFunc() Value {
	f := e.harness.Pkg.Func("verifNoop")
	if f == nil {
		e.unsupported("harness package lacks verifNoop")
	}
	return f
}

func init() {
	ctxT := func(e *Exec) types.Type {
		// context.Context interface type from the program
		for _, p := range e.prog.AllPackages() {
			if p.Pkg.Path() == "context" {
				return p.Type("Context").Type()
			}
		}
		return nil
	}
	mkctx := func(e *Exec, o *GoObj) Value { return Iface{T: ctxObjType, V: o} }
	_ = ctxT
	intrinsics["context.Background"] = func(e *Exec, g *G, fn *ssa.Function, args []Value) (Value, bool) {
		return mkctx(e, e.newContext(nil)), true
	}
	intrinsics["context.TODO"] = intrinsics["context.Background"]
	// maps.clone (runtime linkname behind maps.Clone): shallow copy of a map held in an interface
	intrinsics["maps.clone"] = func(e *Exec, g *G, fn *ssa.Function, args []Value) (Value, bool) {
		ifc, ok := args[0].(Iface)
		if !ok {
			e.unsupported("maps.clone of %T", args[0])
		}
		m, _ := ifc.V.(*MapObj)
		if m == nil {
			return ifc, true
		}
		c := &MapObj{KT: m.KT, VT: m.VT}
		for _, en := range m.Entries {
			if en.Live {
				c.seq++
				c.Entries = append(c.Entries, &MapEntry{K: copyVal(en.K), V: copyVal(en.V), Live: true, Seq: c.seq})
			}
		}
		return Iface{T: ifc.T, V: c}, true
	}
	withTimeout := func(e *Exec, g *G, fn *ssa.Function, args []Value) (Value, bool) {
		o := e.newContext(args[0])
		if len(args) > 1 {
			o.Attrs["timeout"] = args[1]
		}
		e.ctxTimeouts = append(e.ctxTimeouts, o)
		if e.hcfg != nil && e.hcfg.Timers && e.hcfg.CtxTimers {
			ch := &ChanObj{ID: e.newID(), Cap: 0, Name: "ctx.Done"}
			o.Attrs["done"] = ch
			o.Attrs["err"] = Iface{T: errValType, V: e.sentinel("context.DeadlineExceeded")}
			e.addTimer(ch, "ctx-deadline")
		}
		return Tuple{mkctx(e, o), e.noopFunc()}, true
	}
	intrinsics["context.WithTimeout"] = withTimeout
	intrinsics["context.WithCancel"] = func(e *Exec, g *G, fn *ssa.Function, args []Value) (Value, bool) {
		o := e.newContext(args[0])
		return Tuple{mkctx(e, o), e.noopFunc()}, true
	}
	intrinsics["time.After"] = func(e *Exec, g *G, fn *ssa.Function, args []Value) (Value, bool) {
		ch := &ChanObj{ID: e.newID(), Cap: 1, Name: "time.After"}
		if d, ok := args[0].(*Term); ok {
			e.timerDurs = append(e.timerDurs, d)
		}
		if e.hcfg != nil && e.hcfg.Timers {
			e.addTimer(ch, "timer")
		}
		return ch, true
	}
	intrinsics["(*github.com/containerd/ttrpc.Server).Serve"] = func(e *Exec, g *G, fn *ssa.Function, args []Value) (Value, bool) {
		// reached only once the server was closed (see visibleCall): Serve returns ErrServerClosed
		return Iface{T: errValType, V: e.sentinel("github.com/containerd/ttrpc.ErrServerClosed")}, true
	}
	nilErr := func(e *Exec, g *G, fn *ssa.Function, args []Value) (Value, bool) { return Iface{}, true }
	intrinsics["(*github.com/containerd/ttrpc.Client).Close"] = nilErr
	intrinsics["(*github.com/containerd/ttrpc.Server).Close"] = func(e *Exec, g *G, fn *ssa.Function, args []Value) (Value, bool) {
		e.serverClosed[args[0].(Ptr)] = true
		return Iface{}, true
	}
}

// ctxObjType: pseudo dynamic type of engine contexts
var ctxObjType types.Type = types.NewPointer(types.NewNamed(
	types.NewTypeName(0, nil, "symgo.contextObject", nil), types.NewStruct(nil, nil), nil))

// addTimer registers a pseudo goroutine that fires (sends on / closes) ch at an arbitrary scheduling point.
func (e *Exec) addTimer(ch *ChanObj, kind string) {
	tg := &G{id: len(e.gs), name: kind, timer: ch, timerKind: kind}
	// a timer's effect is only observable through a receive on its channel: it needs to be schedulable
	// only while some goroutine is parked at a receive/select on that channel (sound reduction)
	tg.pending = &visOp{kind: "timer", desc: kind + " fires", enabled: func() bool {
		if tg.done {
			return false
		}
		for og, chans := range e.ss.parkedRecv {
			if og.done || og.pending == nil {
				continue
			}
			for _, c := range chans {
				if c == ch {
					return true
				}
			}
		}
		return false
	}}
	e.gs = append(e.gs, tg)
}
