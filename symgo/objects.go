package main

import "go/types"

// Engine-side objects (contexts, timers) exposed through interface method calls.

func objImplements(o *GoObj, it *types.Interface) bool {
	switch o.Kind {
	case "context":
		for i := 0; i < it.NumMethods(); i++ {
			switch it.Method(i).Name() {
			case "Done", "Err", "Deadline", "Value":
			default:
				return false
			}
		}
		return true
	}
	return false
}

func (e *Exec) callObjMethod(g *G, f *objMethod, args []Value) Value {
	tt := e.tt
	o := f.obj
	switch o.Kind {
	case "context":
		switch f.name {
		case "Done":
			if ch, ok := o.Attrs["done"].(*ChanObj); ok {
				return ch
			}
			return (*ChanObj)(nil)
		case "Err":
			if ch, ok := o.Attrs["done"].(*ChanObj); ok && ch != nil && ch.Closed {
				if ev, ok := o.Attrs["err"]; ok {
					return ev
				}
			}
			return Iface{}
		case "Value":
			return Iface{}
		case "Deadline":
			return Tuple{e.zeroTime(), tt.False}
		}
	}
	e.unsupported("method %s on engine object %s", f.name, o.Kind)
	return nil
}

func (e *Exec) zeroTime() Value {
	// time.Time{wall uint64; ext int64; loc *Location}
	return Struct{tt64(e, 0), tt64(e, 0), Ptr(nil)}
}

func tt64(e *Exec, v uint64) *Term { return e.tt.BV(64, v) }
