package main

// Goroutines, channels, select, sync primitives: bounded symbolic scheduling.

import (
	"fmt"
	"go/types"

	"golang.org/x/tools/go/ssa"
)

type visOp struct {
	obj     Ptr
	kind    string
	desc    string
	enabled func() bool
}

type commit struct {
	ch      *ChanObj
	caseIdx int
	val     Value
	ok      bool
	isSend  bool
}

type lockState struct {
	writer  *G
	readers map[*G]int
	nread   int
	wwait   int
}

type schedState struct {
	locks   map[Ptr]*lockState
	wgs     map[Ptr]int
	commits map[*G]*commit
	// parked operations for rendezvous lookup
	parkedRecv map[*G][]*ChanObj // channels g is ready to receive from
	parkedSend map[*G][]sendOffer
}

type sendOffer struct {
	ch      *ChanObj
	val     Value
	caseIdx int
}

func (e *Exec) lockOf(p Ptr) *lockState {
	if l, ok := e.ss.locks[p]; ok {
		return l
	}
	l := &lockState{readers: map[*G]int{}}
	e.ss.locks[p] = l
	return l
}

func (e *Exec) liveGoroutines() int {
	n := 0
	for _, g := range e.gs {
		if !g.done {
			n++
		}
	}
	return n
}

// grantOrPark: returns true when the visible operation may execute now.
func (e *Exec) grantOrPark(g *G, vo *visOp, nested bool) bool {
	if g.granted {
		g.granted = false
		return true
	}
	if nested || g.id < 0 {
		if vo.enabled() {
			return true
		}
		e.unsupported("blocking operation %s in nested call", vo.desc)
	}
	if e.liveGoroutines() <= 1 {
		if vo.enabled() {
			return true
		}
		if len(e.gs) <= 1 {
			e.deadlock(fmt.Sprintf("goroutine %d blocks forever at %s", g.id, vo.desc))
		}
	}
	g.pending = vo
	return false
}

func (e *Exec) deadlock(msg string) {
	e.fail(OutDeadlock, "%s", msg)
}

// schedule picks the next goroutine to run. Returns false when the path is over.
func (e *Exec) schedule() bool {
	main := e.gs[0]
	if main.done {
		return false
	}
	cur := e.cur
	var cands []*G
	curEnabled := false
	if cur != nil && !cur.done && (cur.pending == nil || cur.pending.enabled()) {
		curEnabled = true
		cands = append(cands, cur)
	}
	for _, g := range e.gs {
		if g == cur || g.done {
			continue
		}
		if g.pending == nil || g.pending.enabled() {
			cands = append(cands, g)
		}
	}
	if len(cands) == 0 {
		desc := ""
		for _, g := range e.gs {
			if !g.done && g.pending != nil {
				desc += fmt.Sprintf(" g%d(%s)@%s", g.id, g.name, g.pending.desc)
			}
		}
		e.deadlock("all goroutines blocked:" + desc)
	}
	pb := 2
	if e.hcfg != nil && e.hcfg.Preempt >= 0 {
		pb = e.hcfg.Preempt
	}
	var next *G
	if curEnabled && e.preempts >= pb {
		next = cur
	} else {
		c := e.chooseN(len(cands), "sched")
		next = cands[c]
		if curEnabled && next != cur {
			e.preempts++
		}
	}
	if next.timer != nil {
		// fire the timer: time.After sends a value, context deadlines close the channel
		if next.timerKind == "timer" {
			if len(next.timer.Buf) < next.timer.Cap {
				next.timer.Buf = append(next.timer.Buf, e.zeroTime())
			}
		} else {
			next.timer.Closed = true
		}
		next.done = true
		next.pending = nil
		return true
	}
	e.cur = next
	if next.pending != nil {
		switch next.pending.kind {
		case "start", "go", "commit", "timer":
			// pseudo operations: nothing to re-execute
		default:
			next.granted = true
		}
		next.pending = nil
	}
	return true
}

// ---------- go statement ----------

func (e *Exec) execGo(g *G, fr *Frame, in *ssa.Go) {
	fn, args := e.prepareCall(g, fr, in.Common())
	if fn == nil {
		return
	}
	ng := &G{id: len(e.gs), name: fmt.Sprint(in.Common().Value.Name())}
	e.gs = append(e.gs, ng)
	maxg := 6
	if e.hcfg != nil && e.hcfg.MaxGoroutines > 0 {
		maxg = e.hcfg.MaxGoroutines
	}
	if len(e.gs) > maxg+4 {
		e.fail(OutBound, "more than %d goroutines", maxg)
	}
	// start: run callee on the new goroutine's stack
	saved := e.cur
	e.cur = ng
	switch f := fn.(type) {
	case *errMethod, *objMethod:
		_ = f
		ng.done = true
	default:
		e.callValueOn(ng, fn, args)
	}
	e.cur = saved
	// a new goroutine is parked at its start (always enabled)
	if !ng.done {
		ng.pending = &visOp{kind: "start", desc: "start", enabled: func() bool { return true }}
	}
	fr.pc++
	// creating a goroutine is a scheduling point
	g.pending = &visOp{kind: "go", desc: "after go", enabled: func() bool { return true }}
}

// callValueOn pushes the initial frame of a new goroutine.
func (e *Exec) callValueOn(ng *G, fnv Value, args []Value) {
	var fn *ssa.Function
	var env []Value
	switch f := fnv.(type) {
	case *ssa.Function:
		fn = f
	case *Closure:
		fn, env = f.Fn, f.Env
	default:
		e.unsupported("go on %T", fnv)
	}
	name := fn.String()
	if e.hcfg != nil {
		if repl, ok := e.hcfg.Cuts[name]; ok {
			fn, env = repl, nil
			name = fn.String()
		}
	}
	if _, ok := intrinsics[name]; ok || fn.Blocks == nil {
		// goroutine running an intrinsic: wrap in a synthetic frame is not supported
		e.unsupported("go on intrinsic/external %s", name)
	}
	nf := e.newFrame(fn, args, env)
	ng.stack = append(ng.stack, nf)
}

// ---------- channels ----------

func (e *Exec) recvReady(g *G, ch *ChanObj) bool {
	if ch == nil {
		return false
	}
	if len(ch.Buf) > 0 || ch.Closed {
		return true
	}
	if c := e.ss.commits[g]; c != nil && c.ch == ch && !c.isSend {
		return true
	}
	// a parked sender on an unbuffered channel
	for og, offs := range e.ss.parkedSend {
		if og == g || og.done || og.pending == nil {
			continue
		}
		for _, o := range offs {
			if o.ch == ch {
				return true
			}
		}
	}
	return false
}

func (e *Exec) sendReady(g *G, ch *ChanObj) bool {
	if ch == nil {
		return false
	}
	if ch.Closed {
		return true // will panic
	}
	if len(ch.Buf) < ch.Cap {
		return true
	}
	if c := e.ss.commits[g]; c != nil && c.ch == ch && c.isSend {
		return true
	}
	for og, chans := range e.ss.parkedRecv {
		if og == g || og.done || og.pending == nil {
			continue
		}
		for _, c := range chans {
			if c == ch {
				return true
			}
		}
	}
	return false
}

// sortedGs returns goroutines in id order (determinism) that satisfy pred.
func (e *Exec) findParked(pred func(*G) bool) *G {
	for _, g := range e.gs {
		if !g.done && g.pending != nil && pred(g) {
			return g
		}
	}
	return nil
}

func (e *Exec) park(g *G, vo *visOp, recvs []*ChanObj, sends []sendOffer) {
	e.ss.parkedRecv[g] = recvs
	e.ss.parkedSend[g] = sends
}

func (e *Exec) unparkInfo(g *G) {
	delete(e.ss.parkedRecv, g)
	delete(e.ss.parkedSend, g)
}

// doRecv performs a receive that is known to be ready. Returns (value, ok).
func (e *Exec) doRecv(g *G, ch *ChanObj) (Value, bool) {
	if c := e.ss.commits[g]; c != nil && c.ch == ch && !c.isSend {
		delete(e.ss.commits, g)
		return c.val, true
	}
	if len(ch.Buf) > 0 {
		v := ch.Buf[0]
		ch.Buf = ch.Buf[1:]
		// a parked sender may now refill a buffered channel: handled by its own enabledness
		return v, true
	}
	// rendezvous with a parked sender
	var sender *G
	var off sendOffer
	for _, og := range e.gs {
		if og == g || og.done || og.pending == nil {
			continue
		}
		for _, o := range e.ss.parkedSend[og] {
			if o.ch == ch {
				sender, off = og, o
				break
			}
		}
		if sender != nil {
			break
		}
	}
	if sender != nil {
		e.ss.commits[sender] = &commit{ch: ch, caseIdx: off.caseIdx, isSend: true}
		e.unparkInfo(sender)
		sender.pending = &visOp{kind: "commit", desc: "committed send", enabled: func() bool { return true }}
		return off.val, true
	}
	if ch.Closed {
		return e.zero(ch.ET), false
	}
	panic("doRecv: not ready")
}

// doSend performs a send known to be ready; returns false after raising a panic.
func (e *Exec) doSend(g *G, ch *ChanObj, v Value) bool {
	if c := e.ss.commits[g]; c != nil && c.ch == ch && c.isSend {
		delete(e.ss.commits, g)
		return true
	}
	if ch.Closed {
		e.runtimePanic(g, "send on closed channel")
		return false
	}
	// hand over to a parked receiver first (unbuffered or empty buffer)
	if len(ch.Buf) == 0 {
		var recvr *G
		idx := -1
		for _, og := range e.gs {
			if og == g || og.done || og.pending == nil {
				continue
			}
			for i, c := range e.ss.parkedRecv[og] {
				if c == ch {
					recvr, idx = og, i
					break
				}
			}
			if recvr != nil {
				break
			}
		}
		if recvr != nil {
			_ = idx
			e.ss.commits[recvr] = &commit{ch: ch, val: v, ok: true}
			e.unparkInfo(recvr)
			recvr.pending = &visOp{kind: "commit", desc: "committed recv", enabled: func() bool { return true }}
			return true
		}
	}
	if len(ch.Buf) < ch.Cap {
		ch.Buf = append(ch.Buf, v)
		return true
	}
	panic("doSend: not ready")
}

func (e *Exec) execRecv(g *G, fr *Frame, in *ssa.UnOp, nested bool) {
	ch := e.get(fr, in.X).(*ChanObj)
	if c := e.ss.commits[g]; c != nil && c.ch == ch && !c.isSend {
		g.granted = true // rendezvous already happened: complete it
	}
	if !g.granted {
		vo := &visOp{kind: "recv", desc: "chan receive " + in.X.Name(), enabled: func() bool { return e.recvReady(g, ch) }}
		e.park(g, vo, []*ChanObj{ch}, nil)
		if !e.grantOrPark(g, vo, nested) {
			return
		}
	} else {
		g.granted = false
	}
	e.unparkInfo(g)
	v, ok := e.doRecv(g, ch)
	if in.CommaOk {
		fr.env[in] = Tuple{v, e.tt.Bool(ok)}
	} else {
		fr.env[in] = v
	}
	fr.pc++
}

func (e *Exec) execSend(g *G, fr *Frame, in *ssa.Send, nested bool) {
	ch := e.get(fr, in.Chan).(*ChanObj)
	v := copyVal(e.get(fr, in.X))
	if c := e.ss.commits[g]; c != nil && c.ch == ch && c.isSend {
		g.granted = true
	}
	if !g.granted {
		vo := &visOp{kind: "send", desc: "chan send " + in.Chan.Name(), enabled: func() bool { return e.sendReady(g, ch) }}
		e.park(g, vo, nil, []sendOffer{{ch: ch, val: v, caseIdx: -1}})
		if !e.grantOrPark(g, vo, nested) {
			return
		}
	} else {
		g.granted = false
	}
	e.unparkInfo(g)
	if !e.doSend(g, ch, v) {
		return
	}
	fr.pc++
}

func (e *Exec) closeChan(g *G, ch *ChanObj) bool {
	if ch == nil {
		e.runtimePanic(g, "close of nil channel")
		return false
	}
	if ch.Closed {
		e.runtimePanic(g, "close of closed channel")
		return false
	}
	ch.Closed = true
	return true
}

func (e *Exec) execSelect(g *G, fr *Frame, in *ssa.Select, nested bool) {
	tt := e.tt
	type st struct {
		ch  *ChanObj
		dir types.ChanDir
		val Value
	}
	states := make([]st, len(in.States))
	var recvs []*ChanObj
	var sends []sendOffer
	for i, s := range in.States {
		ch := e.get(fr, s.Chan).(*ChanObj)
		states[i] = st{ch: ch, dir: s.Dir}
		if s.Dir == types.SendOnly {
			states[i].val = copyVal(e.get(fr, s.Send))
			if ch != nil {
				sends = append(sends, sendOffer{ch: ch, val: states[i].val, caseIdx: i})
			}
		} else if ch != nil {
			recvs = append(recvs, ch)
		}
	}
	ready := func() []int {
		var r []int
		if c := e.ss.commits[g]; c != nil {
			for i, s := range states {
				if s.ch == c.ch && ((s.dir == types.SendOnly) == c.isSend) && (c.caseIdx < 0 || c.caseIdx == i || !c.isSend) {
					return []int{i}
				}
			}
		}
		for i, s := range states {
			if s.dir == types.SendOnly {
				if e.sendReady(g, s.ch) {
					r = append(r, i)
				}
			} else if e.recvReady(g, s.ch) {
				r = append(r, i)
			}
		}
		return r
	}
	if c := e.ss.commits[g]; c != nil {
		g.granted = true
	}
	if !g.granted {
		vo := &visOp{kind: "select", desc: "select", enabled: func() bool { return !in.Blocking || len(ready()) > 0 }}
		e.park(g, vo, recvs, sends)
		if !e.grantOrPark(g, vo, nested) {
			return
		}
	} else {
		g.granted = false
	}
	e.unparkInfo(g)
	rd := ready()
	// result tuple: (index int, recvOk bool, r_0 T_0, ... r_n-1 T_n-1) for recv states
	res := Tuple{nil, tt.False}
	for _, s := range in.States {
		if s.Dir == types.RecvOnly {
			res = append(res, e.zero(s.Chan.Type().Underlying().(*types.Chan).Elem()))
		}
	}
	if len(rd) == 0 {
		if in.Blocking {
			panic("select granted but nothing ready")
		}
		res[0] = tt.BV(64, ^uint64(0)) // -1: default
		fr.env[in] = res
		fr.pc++
		return
	}
	c := rd[e.chooseN(len(rd), "select")]
	res[0] = tt.BV(64, uint64(c))
	s := states[c]
	if s.dir == types.SendOnly {
		if !e.doSend(g, s.ch, s.val) {
			return
		}
	} else {
		v, ok := e.doRecv(g, s.ch)
		res[1] = tt.Bool(ok)
		// position of this recv among recv states
		k := 0
		for i := 0; i < c; i++ {
			if in.States[i].Dir == types.RecvOnly {
				k++
			}
		}
		res[2+k] = v
	}
	fr.env[in] = res
	fr.pc++
}

// ---------- sync primitives as visible calls ----------

// visibleCall classifies a call instruction as a visible (possibly blocking) operation.
func (e *Exec) visibleCall(g *G, fr *Frame, call *ssa.CallCommon) *visOp {
	if call.IsInvoke() {
		return nil
	}
	fn, ok := call.Value.(*ssa.Function)
	if !ok {
		return nil
	}
	name := fn.String()
	if e.hcfg != nil {
		if _, cut := e.hcfg.Cuts[name]; cut {
			return nil // replaced by a harness function: its own operations are the visible ones
		}
	}
	switch name {
	case "(*sync.Mutex).Lock":
		p := e.get(fr, call.Args[0]).(Ptr)
		return &visOp{kind: "lock", desc: "Mutex.Lock", enabled: func() bool { return e.lockOf(p).writer == nil }}
	case "(*sync.RWMutex).Lock":
		p := e.get(fr, call.Args[0]).(Ptr)
		return &visOp{obj: p, kind: "lock", desc: "RWMutex.Lock", enabled: func() bool {
			l := e.lockOf(p)
			return l.writer == nil && l.nread == 0
		}}
	case "(*sync.RWMutex).RLock":
		p := e.get(fr, call.Args[0]).(Ptr)
		return &visOp{kind: "rlock", desc: "RWMutex.RLock", enabled: func() bool {
			l := e.lockOf(p)
			if l.writer != nil {
				return false
			}
			// a waiting writer blocks new readers (Go semantics)
			for _, og := range e.gs {
				if og != g && !og.done && og.pending != nil && og.pending.kind == "lock" && og.pending.desc == "RWMutex.Lock" && og.pending.obj == p {
					return false
				}
			}
			return true
		}}
	case "(*github.com/containerd/ttrpc.Server).Serve":
		p := e.get(fr, call.Args[0]).(Ptr)
		return &visOp{kind: "serve", desc: "ttrpc.Server.Serve", enabled: func() bool { return e.serverClosed[p] }}
	case "(*sync.WaitGroup).Wait":
		p := e.get(fr, call.Args[0]).(Ptr)
		return &visOp{kind: "wgwait", desc: "WaitGroup.Wait", enabled: func() bool { return e.ss.wgs[p] == 0 }}
	}
	if e.hcfg != nil {
		if e.hcfg.SchedPoints[name] {
			return &visOp{kind: "schedpoint", desc: name, enabled: func() bool { return true }}
		}
	}
	return nil
}


func init() {
	reg := func(name string, f intrinsicFn) { intrinsics[name] = f }
	reg("(*sync.Mutex).Lock", func(e *Exec, g *G, fn *ssa.Function, args []Value) (Value, bool) {
		p := args[0].(Ptr)
		l := e.lockOf(p)
		if l.writer != nil {
			if l.writer == g {
				e.deadlock("recursive Mutex.Lock")
			}
			e.deadlock("Mutex.Lock on a mutex that is held (blocked forever)")
		}
		l.writer = g
		return nil, true
	})
	reg("(*sync.Mutex).Unlock", func(e *Exec, g *G, fn *ssa.Function, args []Value) (Value, bool) {
		p := args[0].(Ptr)
		l := e.lockOf(p)
		if l.writer == nil {
			e.raise(g, &PanicVal{Runtime: "sync: unlock of unlocked mutex"})
			return nil, true
		}
		l.writer = nil
		return nil, true
	})
	reg("(*sync.Mutex).TryLock", func(e *Exec, g *G, fn *ssa.Function, args []Value) (Value, bool) {
		p := args[0].(Ptr)
		l := e.lockOf(p)
		if l.writer != nil {
			return e.tt.False, true
		}
		l.writer = g
		return e.tt.True, true
	})
	reg("(*sync.RWMutex).Lock", func(e *Exec, g *G, fn *ssa.Function, args []Value) (Value, bool) {
		p := args[0].(Ptr)
		l := e.lockOf(p)
		if l.writer != nil || l.nread != 0 {
			e.deadlock("RWMutex.Lock blocked forever")
		}
		l.writer = g
		return nil, true
	})
	reg("(*sync.RWMutex).Unlock", func(e *Exec, g *G, fn *ssa.Function, args []Value) (Value, bool) {
		p := args[0].(Ptr)
		l := e.lockOf(p)
		if l.writer == nil {
			e.raise(g, &PanicVal{Runtime: "sync: Unlock of unlocked RWMutex"})
			return nil, true
		}
		l.writer = nil
		return nil, true
	})
	reg("(*sync.RWMutex).RLock", func(e *Exec, g *G, fn *ssa.Function, args []Value) (Value, bool) {
		p := args[0].(Ptr)
		l := e.lockOf(p)
		if l.writer != nil {
			e.deadlock("RWMutex.RLock blocked forever")
		}
		l.nread++
		l.readers[g]++
		return nil, true
	})
	reg("(*sync.RWMutex).RUnlock", func(e *Exec, g *G, fn *ssa.Function, args []Value) (Value, bool) {
		p := args[0].(Ptr)
		l := e.lockOf(p)
		if l.nread == 0 {
			e.raise(g, &PanicVal{Runtime: "sync: RUnlock of unlocked RWMutex"})
			return nil, true
		}
		l.nread--
		l.readers[g]--
		return nil, true
	})
	reg("(*sync.WaitGroup).Add", func(e *Exec, g *G, fn *ssa.Function, args []Value) (Value, bool) {
		p := args[0].(Ptr)
		d := args[1].(*Term)
		e.ss.wgs[p] += int(sext64(d.U, 64))
		if e.ss.wgs[p] < 0 {
			e.raise(g, &PanicVal{Runtime: "sync: negative WaitGroup counter"})
		}
		return nil, true
	})
	reg("(*sync.WaitGroup).Done", func(e *Exec, g *G, fn *ssa.Function, args []Value) (Value, bool) {
		p := args[0].(Ptr)
		e.ss.wgs[p]--
		if e.ss.wgs[p] < 0 {
			e.raise(g, &PanicVal{Runtime: "sync: negative WaitGroup counter"})
		}
		return nil, true
	})
	reg("(*sync.WaitGroup).Wait", func(e *Exec, g *G, fn *ssa.Function, args []Value) (Value, bool) {
		p := args[0].(Ptr)
		if e.ss.wgs[p] != 0 {
			e.deadlock("WaitGroup.Wait blocked forever")
		}
		return nil, true
	})
}
