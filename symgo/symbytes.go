package main

// Symbolic byte slices over lazy byte memories.
//
// A ByteMem is a persistent list of writes over a base array: single stores and range copies from a
// snapshot of another memory. Reads build ite-terms over that list (read-over-write), so copy/append with
// symbolic lengths need neither quantifiers nor lambdas.

import (
	"fmt"
)

type memWrite struct {
	prev *memWrite
	// store
	idx, val *Term
	// range copy: dst[dOff .. dOff+n) = src[sOff .. sOff+n)
	isCopy     bool
	dOff, sOff *Term
	n          *Term
	src        *memWrite // snapshot of the source memory's write list
	srcBase    *Term
	depth      int
}

func (m *ByteMem) clone() *ByteMem { return &ByteMem{ID: m.ID, Arr: m.Arr, W: m.W} }

func (e *Exec) newByteMem(zero bool) *ByteMem {
	id := e.newID()
	var base *Term
	if zero {
		base = e.tt.mk("(as const (Array (_ BitVec 64) (_ BitVec 8)))", SArr, e.tt.BV(8, 0))
	} else {
		e.nondetN++
		base = e.tt.Var(fmt.Sprintf("mem!%d", e.nondetN), SArr)
	}
	return &ByteMem{ID: id, Arr: base}
}

// memRead returns the byte at absolute index i (BV64) of memory (base, w).
func (e *Exec) memRead(base *Term, w *memWrite, i *Term) *Term {
	tt := e.tt
	e.memReadDepth++
	defer func() { e.memReadDepth-- }()
	if e.memReadDepth > 64 {
		e.fail(OutBound, "byte memory: copy chain deeper than 64")
	}
	// iterative walk building nested ites from the newest write
	type pend struct {
		cond *Term
		val  *Term
	}
	var stack []pend
	cur := w
	var tail *Term
	for {
		if cur == nil {
			tail = tt.Select(base, i)
			break
		}
		if !cur.isCopy {
			eq := tt.Eq(cur.idx, i)
			if b, ok := eq.ConstBool(); ok {
				if b {
					tail = cur.val
					break
				}
				cur = cur.prev
				continue
			}
			stack = append(stack, pend{eq, cur.val})
			cur = cur.prev
			continue
		}
		// range copy
		in := tt.And(tt.BVCmp("bvule", cur.dOff, i), tt.BVCmp("bvult", i, tt.BVBin("bvadd", cur.dOff, cur.n)))
		if b, ok := in.ConstBool(); ok {
			if b {
				si := tt.BVBin("bvadd", tt.BVBin("bvsub", i, cur.dOff), cur.sOff)
				tail = e.memRead(cur.srcBase, cur.src, si)
				break
			}
			cur = cur.prev
			continue
		}
		si := tt.BVBin("bvadd", tt.BVBin("bvsub", i, cur.dOff), cur.sOff)
		stack = append(stack, pend{in, e.memRead(cur.srcBase, cur.src, si)})
		cur = cur.prev
	}
	r := tail
	for k := len(stack) - 1; k >= 0; k-- {
		r = tt.Ite(stack[k].cond, stack[k].val, r)
	}
	return r
}

func (e *Exec) memStore(m *ByteMem, i, v *Term) {
	d := 0
	if m.W != nil {
		d = m.W.depth
	}
	if d > 4000 {
		e.fail(OutBound, "byte memory write list too long")
	}
	m.W = &memWrite{prev: m.W, idx: i, val: v, depth: d + 1}
}

func (e *Exec) memCopy(dst *ByteMem, dOff *Term, src *ByteMem, sOff, n *Term) {
	d := 0
	if dst.W != nil {
		d = dst.W.depth
	}
	dst.W = &memWrite{prev: dst.W, isCopy: true, dOff: dOff, sOff: sOff, n: n, src: src.W, srcBase: src.Arr, depth: d + 1}
}

func (e *Exec) makeSymBytes(ln, cp *Term) Value {
	m := e.newByteMem(true)
	return &SymBytes{Mem: m, Off: e.tt.BV(64, 0), Len: ln, Cap: cp}
}

// BytePtr is a pointer to one element of a symbolic byte slice.
type BytePtr struct {
	Mem *ByteMem
	Idx *Term
}

func (e *Exec) symBytesElemPtr(x *SymBytes, idx *Term) Value {
	return &BytePtr{Mem: x.Mem, Idx: e.tt.BVBin("bvadd", x.Off, idx)}
}

func (e *Exec) symBytesGet(x *SymBytes, idx *Term) *Term {
	return e.memRead(x.Mem.Arr, x.Mem.W, e.tt.BVBin("bvadd", x.Off, idx))
}

func (e *Exec) sliceSymBytes(g *G, x *SymBytes, lo, hi, max *Term) (Value, bool) {
	tt := e.tt
	if x == nil || x.Nil {
		x = &SymBytes{Mem: e.newByteMem(true), Off: tt.BV(64, 0), Len: tt.BV(64, 0), Cap: tt.BV(64, 0), Nil: true}
	}
	if lo == nil {
		lo = tt.BV(64, 0)
	}
	if hi == nil {
		hi = x.Len
	}
	if max == nil {
		max = x.Cap
	}
	ok := tt.AndN(tt.BVCmp("bvsle", tt.BV(64, 0), lo), tt.BVCmp("bvsle", lo, hi), tt.BVCmp("bvsle", hi, max), tt.BVCmp("bvsle", max, x.Cap))
	if !e.branch(ok) {
		e.runtimePanic(g, "slice bounds out of range (bytes)")
		return nil, false
	}
	return &SymBytes{Mem: x.Mem, Off: tt.BVBin("bvadd", x.Off, lo), Len: tt.BVBin("bvsub", hi, lo), Cap: tt.BVBin("bvsub", max, lo), Nil: x.Nil && false}, true
}

// sliceToSymBytes views a concrete-length byte slice as a symbolic one (copying its contents).
func (e *Exec) sliceToSymBytes(s Slice) *SymBytes {
	tt := e.tt
	m := e.newByteMem(true)
	for i, v := range s {
		e.memStore(m, tt.BV(64, uint64(i)), v.(*Term))
	}
	return &SymBytes{Mem: m, Off: tt.BV(64, 0), Len: tt.BV(64, uint64(len(s))), Cap: tt.BV(64, uint64(cap(s))), Nil: s == nil}
}

func (e *Exec) minBV(a, b *Term) *Term {
	return e.tt.Ite(e.tt.BVCmp("bvslt", a, b), a, b)
}

// copySymBytes implements copy(d, s) for symbolic byte slices; returns the count (BV64).
func (e *Exec) copySymBytes(g *G, d, s *SymBytes) Value {
	tt := e.tt
	if d == nil || d.Nil || s == nil || s.Nil {
		return tt.BV(64, 0)
	}
	n := e.minBV(d.Len, s.Len)
	e.memCopy(d.Mem, d.Off, s.Mem, s.Off, n)
	return n
}

// copyToSlice implements copy(dst, src) from a symbolic byte slice into a concrete-length slice.
func (e *Exec) copySymToSlice(g *G, d Slice, s *SymBytes) Value {
	tt := e.tt
	if s == nil || s.Nil {
		return tt.BV(64, 0)
	}
	n := e.minBV(tt.BV(64, uint64(len(d))), s.Len)
	for i := range d {
		bi := tt.BV(64, uint64(i))
		in := tt.BVCmp("bvslt", bi, n)
		d[i] = tt.Ite(in, e.symBytesGet(s, bi), d[i].(*Term))
	}
	return n
}

// copySliceToSym implements copy(dst, src) from a concrete-length slice into a symbolic byte slice.
func (e *Exec) copySliceToSym(g *G, d *SymBytes, s Slice) Value {
	tt := e.tt
	if d == nil || d.Nil {
		return tt.BV(64, 0)
	}
	n := e.minBV(d.Len, tt.BV(64, uint64(len(s))))
	for i, v := range s {
		bi := tt.BV(64, uint64(i))
		in := tt.BVCmp("bvslt", bi, n)
		idx := tt.BVBin("bvadd", d.Off, bi)
		old := e.memRead(d.Mem.Arr, d.Mem.W, idx)
		e.memStore(d.Mem, idx, tt.Ite(in, v.(*Term), old))
	}
	return n
}

func (e *Exec) appendSymBytes(g *G, a, b *SymBytes) Value {
	tt := e.tt
	if b == nil || b.Nil {
		return a
	}
	// always reallocate: capacity growth is not observable through the properties decided here
	nl := tt.BVBin("bvadd", a.Len, b.Len)
	m := e.newByteMem(true)
	e.memCopy(m, tt.BV(64, 0), a.Mem, a.Off, a.Len)
	e.memCopy(m, a.Len, b.Mem, b.Off, b.Len)
	return &SymBytes{Mem: m, Off: tt.BV(64, 0), Len: nl, Cap: nl}
}
