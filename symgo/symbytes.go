package main

// Symbolic byte slices (lazy byte arrays). Filled in for C10/C12.

func (e *Exec) makeSymBytes(ln, cp *Term) Value {
	e.unsupported("symbolic-length []byte not yet supported")
	return nil
}

func (e *Exec) symBytesElemPtr(x *SymBytes, idx *Term) Value {
	e.unsupported("symbytes elem ptr")
	return nil
}

func (e *Exec) sliceSymBytes(g *G, x *SymBytes, lo, hi, max *Term) (Value, bool) {
	e.unsupported("symbytes slice")
	return nil, false
}

func (e *Exec) appendSymBytes(g *G, a, b *SymBytes) Value {
	e.unsupported("symbytes append")
	return nil
}

func (e *Exec) copySymBytes(g *G, d, s *SymBytes) Value {
	e.unsupported("symbytes copy")
	return nil
}

func (e *Exec) sliceToSymBytes(s Slice) *SymBytes {
	e.unsupported("slice to symbytes")
	return nil
}
