package main

// Printing of large terms as DAGs: the byte memories of //verif:symbytes harnesses build deeply shared
// ite-terms whose tree expansion is exponential; shared sub-terms are emitted once as
// (define-fun |d!<id>| () <sort> <body>) and referred to by name.

import (
	"fmt"
	"strings"
)

const dagThreshold = 50000 // tree size (bytes, roughly) above which a term is printed as a DAG

type dagPrinter struct {
	size  map[*Term]int
	named map[*Term]string
	order []*Term // definition order (for scoping by the caller)
}

func newDagPrinter() *dagPrinter {
	return &dagPrinter{size: map[*Term]int{}, named: map[*Term]string{}}
}

// treeSize: saturating estimate of len(t.SMT()).
func (p *dagPrinter) treeSize(t *Term) int {
	if t.smt != "" {
		return len(t.smt)
	}
	if n, ok := p.size[t]; ok {
		return n
	}
	n := len(t.Op) + 2
	if t.Op == "const" || t.Op == "var" {
		n = len(t.S) + 24
	}
	for _, a := range t.Args {
		n += 1 + p.treeSize(a)
		if n > 1<<40 {
			n = 1 << 40
			break
		}
	}
	p.size[t] = n
	return n
}

// render returns the definitions to send before, and the text of, term t.
func (p *dagPrinter) render(t *Term) ([]string, string) {
	if p.treeSize(t) <= dagThreshold {
		return nil, t.SMT()
	}
	refs := map[*Term]int{}
	var count func(n *Term)
	count = func(n *Term) {
		refs[n]++
		if refs[n] > 1 || p.named[n] != "" {
			return
		}
		for _, a := range n.Args {
			count(a)
		}
	}
	count(t)
	var defs []string
	done := map[*Term]bool{}
	var visit func(n *Term)
	visit = func(n *Term) {
		if done[n] || p.named[n] != "" {
			return
		}
		done[n] = true
		for _, a := range n.Args {
			visit(a)
		}
		if n != t && refs[n] >= 2 && len(n.Args) > 0 && p.treeSize(n) > 80 {
			name := fmt.Sprintf("|d!%d|", n.id)
			defs = append(defs, "(define-fun "+name+" () "+n.Sort.SMT()+" "+p.print(n)+")")
			p.named[n] = name
			p.order = append(p.order, n)
		}
	}
	visit(t)
	return defs, p.print(t)
}

func (p *dagPrinter) print(n *Term) string {
	var sb strings.Builder
	p.write(&sb, n, true)
	return sb.String()
}

func (p *dagPrinter) write(sb *strings.Builder, n *Term, top bool) {
	if !top {
		if name := p.named[n]; name != "" {
			sb.WriteString(name)
			return
		}
	}
	if len(n.Args) == 0 || n.smt != "" {
		sb.WriteString(n.SMT())
		return
	}
	sb.WriteByte('(')
	sb.WriteString(n.Op)
	for _, a := range n.Args {
		sb.WriteByte(' ')
		p.write(sb, a, false)
	}
	sb.WriteByte(')')
}

// forget drops the names of terms defined after the first `keep` definitions (solver pop).
func (p *dagPrinter) forget(keep int) {
	for _, n := range p.order[keep:] {
		delete(p.named, n)
	}
	p.order = p.order[:keep]
}
