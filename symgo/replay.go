package main

import (
	"encoding/json"
	"fmt"
	"os"
	"os/exec"
	"path/filepath"
	"strings"
	"time"
)

// nativeReplay runs the natively compiled harness against /repo's working tree with the
// solver's values. Returns (reproduced, output|"skip").
func nativeReplay(repo string, lds []*Loaded, path string, v *Violation) (bool, string) {
	hname := strings.SplitN(v.Key, ":", 2)[0]
	var ld *Loaded
	var h *HarnessCfg
	for _, l := range lds {
		if x, ok := l.harnesses[hname]; ok {
			ld, h = l, x
		}
	}
	if h == nil {
		return false, "skip"
	}
	if v.Kind == "deadlock" || h.Preempt >= 0 && v.Kind != "assert" && v.Kind != "panic" {
		return false, "skip"
	}
	if h.Preempt > 0 {
		// the counterexample is a schedule with preemptions: the native scheduler cannot be forced onto it
		return false, "skip"
	}
	if (len(h.Cuts) > 0 && !h.ReplayCuts) || len(h.SchedPoints) > 0 || h.SymBytes {
		// harness relies on engine-side cuts/models: not natively replayable
		return false, "skip"
	}
	work, err := os.MkdirTemp(filepath.Join(verifDir, ".work"), "replay")
	if err != nil {
		os.MkdirAll(filepath.Join(verifDir, ".work"), 0o755)
		work, err = os.MkdirTemp(filepath.Join(verifDir, ".work"), "replay")
		if err != nil {
			return false, "skip"
		}
	}
	defer os.RemoveAll(work)
	// materialise overlay files of the harness's package dir
	pkgDir := filepath.Dir(h.File)
	ov := map[string]string{}
	i := 0
	for vp, src := range ld.overlay {
		if filepath.Dir(vp) != pkgDir {
			continue
		}
		real := filepath.Join(work, fmt.Sprintf("f%d_%s", i, filepath.Base(vp)))
		i++
		os.WriteFile(real, src, 0o644)
		ov[vp] = real
	}
	// the replay test driver
	test := "package " + packageClause(ld.overlay[h.File]) + "\n\nimport \"testing\"\n\nfunc TestVerifReplay(t *testing.T) { verifReplayMain(t, map[string]func(){\n"
	for _, n := range ld.order {
		hh := ld.harnesses[n]
		if filepath.Dir(hh.File) == pkgDir {
			test += fmt.Sprintf("\t%q: %s,\n", hh.Name, hh.Name)
		}
	}
	test += "}) }\n"
	tp := filepath.Join(work, "zz_verif_replay_test.go")
	os.WriteFile(tp, []byte(test), 0o644)
	ov[filepath.Join(pkgDir, "zz_verif_replay_test.go")] = tp
	ovj, _ := json.Marshal(map[string]interface{}{"Replace": ov})
	ovp := filepath.Join(work, "overlay.json")
	os.WriteFile(ovp, ovj, 0o644)
	tries := 1
	if strings.Contains(strings.Join(v.Shape, ","), "maporder") || true {
		tries = 40 // map iteration order is random natively
	}
	cmd := exec.Command("go", "test", "-vet=off", "-count="+fmt.Sprint(tries), "-overlay", ovp, "-run", "^TestVerifReplay$", ".")
	cmd.Dir = pkgDir
	cmd.Env = append(os.Environ(), "GOFLAGS=-mod=mod", "GOPROXY=off", "GOSUMDB=off", "GOTOOLCHAIN=local", "VERIF_REPLAY="+path)
	done := make(chan struct{})
	var out []byte
	go func() { out, _ = cmd.CombinedOutput(); close(done) }()
	select {
	case <-done:
	case <-time.After(5 * time.Minute):
		cmd.Process.Kill()
		<-done
	}
	s := string(out)
	os.WriteFile(strings.TrimSuffix(path, ".json")+".native.log", out, 0o644)
	want := "VERIF-ASSERT-FAILED " + v.Label
	if v.Kind == "panic" {
		return strings.Contains(s, "VERIF-PANIC") || strings.Contains(s, "panic:"), s
	}
	return strings.Contains(s, want), s
}

func cmdReplay(args []string) int {
	if len(args) < 1 {
		fmt.Fprintln(os.Stderr, "usage: symgo replay <file.json>")
		return 2
	}
	b, err := os.ReadFile(args[0])
	if err != nil {
		fmt.Fprintln(os.Stderr, err)
		return 2
	}
	var rf replayFile
	if err := json.Unmarshal(b, &rf); err != nil {
		fmt.Fprintln(os.Stderr, err)
		return 2
	}
	dirs, mods := harnessDirsFor(rf.Property)
	lds := loadAll("/repo", dirs, mods)
	v := &Violation{Label: rf.Label, Kind: rf.Kind, Key: rf.Key, Msg: rf.Msg, Nondets: rf.Nondet}
	ok, out := nativeReplay("/repo", lds, args[0], v)
	fmt.Println(out)
	if ok {
		fmt.Printf("REPRODUCED %s\n", rf.Key)
		return 1
	}
	fmt.Printf("NOT-REPRODUCED %s\n", rf.Key)
	return 0
}

// nativeSweep runs harness hname natively on pseudo-random inputs (sampling; validates the trusted base,
// e.g. the reflection codec against the reference encoding in C12). Returns (runs, ok, output).
func nativeSweep(ld *Loaded, h *HarnessCfg, instances, rounds, seed int) (int, bool, string) {
	os.MkdirAll(filepath.Join(verifDir, ".work"), 0o755)
	work, err := os.MkdirTemp(filepath.Join(verifDir, ".work"), "sweep")
	if err != nil {
		return 0, false, err.Error()
	}
	defer os.RemoveAll(work)
	pkgDir := filepath.Dir(h.File)
	ov := map[string]string{}
	i := 0
	for vp, src := range ld.overlay {
		if filepath.Dir(vp) != pkgDir {
			continue
		}
		real := filepath.Join(work, fmt.Sprintf("f%d_%s", i, filepath.Base(vp)))
		i++
		os.WriteFile(real, src, 0o644)
		ov[vp] = real
	}
	test := "package " + packageClause(ld.overlay[h.File]) + "\n\nimport \"testing\"\n\nfunc TestVerifReplay(t *testing.T) { verifReplayMain(t, map[string]func(){\n"
	for _, n := range ld.order {
		hh := ld.harnesses[n]
		if filepath.Dir(hh.File) == pkgDir {
			test += fmt.Sprintf("\t%q: %s,\n", hh.Name, hh.Name)
		}
	}
	test += "}) }\n"
	tp := filepath.Join(work, "zz_verif_replay_test.go")
	os.WriteFile(tp, []byte(test), 0o644)
	ov[filepath.Join(pkgDir, "zz_verif_replay_test.go")] = tp
	ovj, _ := json.Marshal(map[string]interface{}{"Replace": ov})
	ovp := filepath.Join(work, "overlay.json")
	os.WriteFile(ovp, ovj, 0o644)
	cmd := exec.Command("go", "test", "-v", "-vet=off", "-count=1", "-overlay", ovp, "-run", "^TestVerifReplay$", ".")
	cmd.Dir = pkgDir
	cmd.Env = append(os.Environ(), "GOFLAGS=-mod=mod", "GOPROXY=off", "GOSUMDB=off", "GOTOOLCHAIN=local",
		fmt.Sprintf("VERIF_SWEEP=%s:%d:%d:%d", h.Name, instances, rounds, seed))
	out, _ := cmd.CombinedOutput()
	s := string(out)
	runs := 0
	if k := strings.Index(s, "VERIF-SWEEP-OK"); k >= 0 {
		fmt.Sscanf(s[k:], "VERIF-SWEEP-OK "+h.Name+" runs=%d", &runs)
		return runs, true, s
	}
	return 0, false, s
}
