package main

import (
	"fmt"
	"go/ast"
	"go/types"
	"os"
	"path/filepath"
	"regexp"
	"sort"
	"strconv"
	"strings"

	"golang.org/x/tools/go/packages"
	"golang.org/x/tools/go/ssa"
	"golang.org/x/tools/go/ssa/ssautil"
)

const repoModule = "github.com/containerd/nri"

type HarnessCfg struct {
	Name      string
	Property  string
	Fn        *ssa.Function
	Instances int
	Tier      string // "" = both, "thorough" = thorough only, "quick" = quick only
	Cuts      map[string]*ssa.Function
	cutNames  map[string]string
	Preempt   int
	MaxRange  int
	MaxSteps  int
	MaxPaths  int
	MaxGoroutines int
	SchedPoints map[string]bool
	ExpectCover []string
	AllowPanic  bool
	SymBytes    bool
	Timers      bool
	Twin        bool // reachability twin: final vassert(false) must be violated
	QuickInstances []int
	ThoroughInstances []int
	Doc       string
	File      string
	PkgPath   string
	MethodSetHook func(e *Exec, x Iface, it *types.Interface) (bool, bool)
	SymMethods bool
	ReplayCuts bool
	QTimeout int // per-query solver budget in ms (0 = tier default)
	Sweep int // native sampling rounds (trusted-base validation)
	CtxTimers bool
	Env map[string]string
}

type Loaded struct {
	prog      *ssa.Program
	pkgs      []*packages.Package
	harnesses map[string]*HarnessCfg
	order     []string
	overlay   map[string][]byte
	repo      string
	dir       string
}

func (l *Loaded) isRepoPkg(path string) bool {
	return strings.HasPrefix(path, repoModule)
}

func (l *Loaded) allowForeignGlobal(gl *ssa.Global) bool { return false }

// harnessFiles maps virtual repo paths to harness sources for one module dir.
// Layout: /verif/harness/<relative package dir>/zz_verif_*.go, plus common/zz_verif_api.go
// which is copied into every package that has harness files.
func buildOverlay(verifDir, repo, moduleRel string) (map[string][]byte, []string, error) {
	ov := map[string][]byte{}
	var pkgDirs []string
	root := filepath.Join(verifDir, "harness")
	api, err := os.ReadFile(filepath.Join(root, "common", "zz_verif_api.go"))
	if err != nil {
		return nil, nil, err
	}
	err = filepath.Walk(root, func(p string, info os.FileInfo, err error) error {
		if err != nil {
			return err
		}
		if info.IsDir() || !strings.HasSuffix(p, ".go") || !strings.HasPrefix(filepath.Base(p), "zz_verif") {
			return nil
		}
		rel, _ := filepath.Rel(root, p)
		d := filepath.Dir(rel)
		if d == "common" {
			return nil
		}
		// module selection: plugin modules live under plugins/<name>
		if moduleRel == "" {
			if strings.HasPrefix(d, "plugins/device-injector") || strings.HasPrefix(d, "plugins/ulimit-adjuster") {
				return nil
			}
		} else if !strings.HasPrefix(d, moduleRel) {
			return nil
		}
		src, err := os.ReadFile(p)
		if err != nil {
			return err
		}
		ov[filepath.Join(repo, rel)] = src
		apiPath := filepath.Join(repo, d, "zz_verif_api.go")
		if _, ok := ov[apiPath]; !ok {
			pkgName := packageClause(src)
			ov[apiPath] = []byte(strings.Replace(string(api), "package PKG", "package "+pkgName, 1))
			pkgDirs = append(pkgDirs, d)
		}
		return nil
	})
	sort.Strings(pkgDirs)
	return ov, pkgDirs, err
}

var pkgRe = regexp.MustCompile(`(?m)^package\s+(\w+)`)

func packageClause(src []byte) string {
	m := pkgRe.FindSubmatch(src)
	if m == nil {
		return "main"
	}
	return string(m[1])
}

func Load(verifDir, repo, moduleRel string, onlyDirs []string) (*Loaded, error) {
	ov, pkgDirs, err := buildOverlay(verifDir, repo, moduleRel)
	if err != nil {
		return nil, err
	}
	if len(onlyDirs) > 0 {
		keep := map[string]bool{}
		for _, d := range onlyDirs {
			keep[d] = true
		}
		var nd []string
		for _, d := range pkgDirs {
			if keep[d] {
				nd = append(nd, d)
			} else {
				for p := range ov {
					if filepath.Dir(p) == filepath.Join(repo, d) {
						delete(ov, p)
					}
				}
			}
		}
		pkgDirs = nd
	}
	dir := filepath.Join(repo, moduleRel)
	var patterns []string
	for _, d := range pkgDirs {
		r, _ := filepath.Rel(moduleRel, d)
		if moduleRel == "" {
			r = d
		}
		patterns = append(patterns, "./"+r)
	}
	if len(patterns) == 0 {
		return nil, fmt.Errorf("no harness packages selected")
	}
	cfg := &packages.Config{
		Mode:    packages.LoadAllSyntax,
		Dir:     dir,
		Overlay: ov,
		Env:     append(os.Environ(), "GOFLAGS=-mod=mod", "GOPROXY=off", "GOSUMDB=off", "GOTOOLCHAIN=local"),
	}
	pkgs, err := packages.Load(cfg, patterns...)
	if err != nil {
		return nil, err
	}
	nerr := 0
	packages.Visit(pkgs, nil, func(p *packages.Package) {
		for _, e := range p.Errors {
			if nerr < 20 {
				fmt.Fprintf(os.Stderr, "load error: %s: %v\n", p.PkgPath, e)
			}
			nerr++
		}
	})
	if nerr > 0 {
		return nil, fmt.Errorf("%d package load errors (harness no longer type-checks against the tree?)", nerr)
	}
	prog, _ := ssautil.AllPackages(pkgs, ssa.InstantiateGenerics)
	prog.Build()
	l := &Loaded{prog: prog, pkgs: pkgs, harnesses: map[string]*HarnessCfg{}, overlay: ov, repo: repo, dir: dir}
	for _, p := range pkgs {
		sp := prog.Package(p.Types)
		if sp == nil {
			continue
		}
		for _, f := range p.Syntax {
			fname := p.Fset.Position(f.Pos()).Filename
			if !strings.Contains(filepath.Base(fname), "zz_verif") {
				continue
			}
			for _, d := range f.Decls {
				fd, ok := d.(*ast.FuncDecl)
				if !ok || fd.Recv != nil || !strings.HasPrefix(fd.Name.Name, "H_") {
					continue
				}
				fn := sp.Func(fd.Name.Name)
				if fn == nil {
					continue
				}
				h := &HarnessCfg{Name: fd.Name.Name, Fn: fn, Instances: 1, Cuts: map[string]*ssa.Function{}, cutNames: map[string]string{},
					Preempt: -1, SchedPoints: map[string]bool{}, File: fname, PkgPath: p.PkgPath}
				if fd.Doc != nil {
					for _, c := range fd.Doc.List {
						l.parseDirective(h, sp, strings.TrimSpace(strings.TrimPrefix(c.Text, "//")))
					}
				}
				l.harnesses[h.Name] = h
				l.order = append(l.order, h.Name)
			}
		}
	}
	sort.Strings(l.order)
	// resolve cuts
	for _, h := range l.harnesses {
		sp := h.Fn.Pkg
		for from, to := range h.cutNames {
			f := sp.Func(to)
			if f == nil {
				return nil, fmt.Errorf("harness %s: cut target %s not found", h.Name, to)
			}
			h.Cuts[from] = f
		}
	}
	return l, nil
}

func (l *Loaded) parseDirective(h *HarnessCfg, sp *ssa.Package, line string) {
	if !strings.HasPrefix(line, "verif:") {
		if h.Doc == "" && line != "" {
			h.Doc = line
		}
		return
	}
	line = strings.TrimPrefix(line, "verif:")
	f := strings.Fields(line)
	if len(f) == 0 {
		return
	}
	atoi := func(s string) int { n, _ := strconv.Atoi(s); return n }
	switch f[0] {
	case "property":
		h.Property = f[1]
	case "instances":
		h.Instances = atoi(f[1])
	case "quick-instances":
		for _, x := range f[1:] {
			h.QuickInstances = append(h.QuickInstances, atoi(x))
		}
	case "thorough-instances":
		for _, x := range f[1:] {
			h.ThoroughInstances = append(h.ThoroughInstances, atoi(x))
		}
	case "tier":
		h.Tier = f[1]
	case "cut":
		// verif:cut <qualified> => <harness func>
		if len(f) >= 4 && f[2] == "=>" {
			h.cutNames[f[1]] = f[3]
		}
	case "preempt":
		h.Preempt = atoi(f[1])
	case "maxrange":
		h.MaxRange = atoi(f[1])
	case "maxsteps":
		h.MaxSteps = atoi(f[1])
	case "maxpaths":
		h.MaxPaths = atoi(f[1])
	case "maxgoroutines":
		h.MaxGoroutines = atoi(f[1])
	case "schedpoint":
		h.SchedPoints[f[1]] = true
	case "expect-cover":
		h.ExpectCover = append(h.ExpectCover, f[1:]...)
	case "allow-panic":
		h.AllowPanic = true
	case "symbytes":
		h.SymBytes = true
	case "timers":
		h.Timers = true
		if len(f) > 1 && f[1] == "all" {
			h.CtxTimers = true
		}
	case "env":
		if h.Env == nil {
			h.Env = map[string]string{}
		}
		if len(f) >= 3 {
			h.Env[f[1]] = f[2]
		}
	case "qtimeout":
		h.QTimeout = atoi(f[1])
	case "native-sweep":
		h.Sweep = atoi(f[1])
	case "replay-with-cuts":
		h.ReplayCuts = true
	case "twin":
		h.Twin = true
	case "symmethods":
		h.SymMethods = true
	}
}
