package main

import (
	"fmt"
	"go/types"
	"strings"

	"golang.org/x/tools/go/ssa"
)

// Value is one of:
//   *Term                 bool, integers, string, float64
//   *Value (Ptr)          pointers (nil = (*Value)(nil))
//   Struct, Array         aggregates (value semantics: copied on load/store)
//   Slice                 Go slice of Value sharing a backing array
//   *SymBytes             byte slice with symbolic offset/length over a lazy byte array
//   *MapObj               maps (nil map = (*MapObj)(nil))
//   *ChanObj              channels
//   Iface                 interface values
//   *ssa.Function, *ssa.Builtin, *Closure   functions
//   Tuple                 multiple results
//   *MapIter, *StrIter    range iterators
//   *ErrVal               abstract error object (boxed in Iface)
type Value interface{}

type Ptr = *Value

type Struct []Value
type Array []Value
type Slice []Value
type Tuple []Value

type Iface struct {
	T types.Type
	V Value
}

type Closure struct {
	Fn  *ssa.Function
	Env []Value
}

// ErrVal: abstract error created by fmt.Errorf / errors.New intrinsics or
// materialised for a foreign sentinel (ttrpc.ErrClosed ...).
type ErrVal struct {
	ID    int
	Name  string  // sentinel name or creation site
	Wraps []Value // wrapped errors (Iface values)
	Msg   *Term   // message text (String term), may be nil = unconstrained
	Attrs map[string]Value
}

// pseudo type used as dynamic type of ErrVal inside an Iface
var errValType types.Type = types.NewPointer(types.NewNamed(
	types.NewTypeName(0, nil, "symgo.errorObject", nil), types.NewStruct(nil, nil), nil))

type MapEntry struct {
	K    Value
	V    Value
	Live bool
	Seq  int // insertion sequence number
}

type MapObj struct {
	Entries []*MapEntry
	KT, VT  types.Type
	seq     int
}

func (m *MapObj) live() []*MapEntry {
	var r []*MapEntry
	for _, e := range m.Entries {
		if e.Live {
			r = append(r, e)
		}
	}
	return r
}

type MapIter struct {
	M       *MapObj
	Visited map[*MapEntry]bool
	StartN  int // m.seq at range start
	Ordered bool // order-independent loop (static analysis): no fork over orders
}

type StrIter struct {
	S   *Term
	Pos int   // concrete position (ASCII assumption for symbolic strings)
	B   []byte // when concrete
}

type ChanObj struct {
	ID     int
	Cap    int
	Buf    []Value
	Closed bool
	ET     types.Type
	// rendezvous for unbuffered channels: pending senders
	Name string
}

// ---------- type helpers ----------

func under(t types.Type) types.Type { return t.Underlying() }

func intWidth(b *types.Basic) (w int, signed bool, ok bool) {
	switch b.Kind() {
	case types.Int, types.Int64, types.UntypedInt:
		return 64, true, true
	case types.Int8:
		return 8, true, true
	case types.Int16:
		return 16, true, true
	case types.Int32, types.UntypedRune:
		return 32, true, true
	case types.Uint, types.Uint64, types.Uintptr:
		return 64, false, true
	case types.Uint8:
		return 8, false, true
	case types.Uint16:
		return 16, false, true
	case types.Uint32:
		return 32, false, true
	}
	return 0, false, false
}

func isString(t types.Type) bool {
	b, ok := under(t).(*types.Basic)
	return ok && b.Info()&types.IsString != 0
}

func isByteSlice(t types.Type) bool {
	s, ok := under(t).(*types.Slice)
	if !ok {
		return false
	}
	b, ok := under(s.Elem()).(*types.Basic)
	return ok && b.Kind() == types.Uint8
}

func (e *Exec) zero(t types.Type) Value {
	switch t := t.(type) {
	case *types.Basic:
		if t.Kind() == types.UntypedNil {
			panic("untyped nil has no zero value")
		}
		if t.Info()&types.IsBoolean != 0 {
			return e.tt.False
		}
		if w, _, ok := intWidth(t); ok {
			return e.tt.BV(w, 0)
		}
		if t.Info()&types.IsString != 0 {
			return e.tt.Str("")
		}
		if t.Kind() == types.Float64 || t.Kind() == types.Float32 || t.Kind() == types.UntypedFloat {
			return e.tt.FP(0)
		}
		if t.Kind() == types.UnsafePointer {
			return Ptr(nil)
		}
		if t.Kind() == types.Complex128 || t.Kind() == types.Complex64 {
			return e.tt.FP(0)
		}
		panic(fmt.Sprintf("zero: basic %v", t))
	case *types.Pointer:
		return Ptr(nil)
	case *types.Slice:
		return Slice(nil)
	case *types.Map:
		return (*MapObj)(nil)
	case *types.Chan:
		return (*ChanObj)(nil)
	case *types.Signature:
		return (*ssa.Function)(nil)
	case *types.Interface:
		return Iface{}
	case *types.Struct:
		s := make(Struct, t.NumFields())
		for i := range s {
			s[i] = e.zero(t.Field(i).Type())
		}
		return s
	case *types.Array:
		a := make(Array, t.Len())
		if t.Len() > 0 {
			z := e.zero(t.Elem())
			for i := range a {
				a[i] = copyVal(z)
			}
		}
		return a
	case *types.Named:
		return e.zero(t.Underlying())
	case *types.Alias:
		return e.zero(types.Unalias(t))
	case *types.Tuple:
		if t.Len() == 1 {
			return e.zero(t.At(0).Type())
		}
		tu := make(Tuple, t.Len())
		for i := range tu {
			tu[i] = e.zero(t.At(i).Type())
		}
		return tu
	case *types.TypeParam:
		panic("zero of type param")
	}
	panic(fmt.Sprintf("zero: %T %v", t, t))
}

// copyVal copies aggregate values (value semantics); everything else is shared.
func copyVal(v Value) Value {
	switch v := v.(type) {
	case Struct:
		c := make(Struct, len(v))
		for i, x := range v {
			c[i] = copyVal(x)
		}
		return c
	case Array:
		c := make(Array, len(v))
		for i, x := range v {
			c[i] = copyVal(x)
		}
		return c
	case Tuple:
		return v
	}
	return v
}

// storeInto writes v to *addr preserving the identity of aggregate storage
// (so that outstanding field/element pointers stay valid).
func storeInto(addr Ptr, v Value) {
	switch cur := (*addr).(type) {
	case Struct:
		nv, ok := v.(Struct)
		if ok && len(nv) == len(cur) {
			for i := range cur {
				storeInto(&cur[i], nv[i])
			}
			return
		}
	case Array:
		nv, ok := v.(Array)
		if ok && len(nv) == len(cur) {
			for i := range cur {
				storeInto(&cur[i], nv[i])
			}
			return
		}
	}
	*addr = copyVal(v)
}

func isNilValue(v Value) (isnil bool, known bool) {
	switch v := v.(type) {
	case Ptr:
		return v == nil, true
	case Slice:
		return v == nil, true
	case *MapObj:
		return v == nil, true
	case *ChanObj:
		return v == nil, true
	case Iface:
		return v.T == nil, true
	case *ssa.Function:
		return v == nil, true
	case *Closure:
		return v == nil, true
	case *ssa.Builtin:
		return false, true
	case *SymBytes:
		return v == nil || v.Nil, true
	}
	return false, false
}

// eqValues returns a Bool term for a == b (Go ==).
func (e *Exec) eqValues(a, b Value) *Term {
	tt := e.tt
	switch x := a.(type) {
	case *Term:
		y, ok := b.(*Term)
		if !ok {
			panic(fmt.Sprintf("eqValues: term vs %T", b))
		}
		if x.Sort.K == KFP {
			return tt.FPCmp("fp.eq", x, y)
		}
		return tt.Eq(x, y)
	case Ptr:
		y, ok := b.(Ptr)
		if !ok {
			return tt.False
		}
		return tt.Bool(x == y)
	case *MapObj:
		y, _ := b.(*MapObj)
		return tt.Bool(x == y)
	case *ChanObj:
		y, _ := b.(*ChanObj)
		return tt.Bool(x == y)
	case Slice:
		// only comparison with nil is legal
		y, _ := b.(Slice)
		return tt.Bool(x == nil && y == nil)
	case *SymBytes:
		y, _ := b.(*SymBytes)
		xn := x == nil || x.Nil
		yn := y == nil || y.Nil
		return tt.Bool(xn && yn)
	case *ssa.Function:
		switch y := b.(type) {
		case *ssa.Function:
			return tt.Bool(x == y)
		case *Closure:
			return tt.Bool(x == nil && y == nil)
		}
		return tt.False
	case *Closure:
		switch y := b.(type) {
		case *ssa.Function:
			return tt.Bool(x == nil && y == nil)
		case *Closure:
			return tt.Bool(x == y)
		}
		return tt.False
	case Iface:
		y, ok := b.(Iface)
		if !ok {
			panic(fmt.Sprintf("eqValues: iface vs %T", b))
		}
		if x.T == nil || y.T == nil {
			return tt.Bool(x.T == nil && y.T == nil)
		}
		if !types.Identical(x.T, y.T) {
			return tt.False
		}
		return e.eqValues(x.V, y.V)
	case Struct:
		y := b.(Struct)
		r := tt.True
		for i := range x {
			r = tt.And(r, e.eqValues(x[i], y[i]))
		}
		return r
	case Array:
		y := b.(Array)
		r := tt.True
		for i := range x {
			r = tt.And(r, e.eqValues(x[i], y[i]))
		}
		return r
	case *ErrVal:
		y, _ := b.(*ErrVal)
		return tt.Bool(x == y)
	case *GoObj:
		y, _ := b.(*GoObj)
		return tt.Bool(x == y)
	case *BytePtr:
		y, ok := b.(*BytePtr)
		if !ok {
			return tt.False
		}
		return tt.And(tt.Bool(x.Mem == y.Mem), tt.Eq(x.Idx, y.Idx))
	}
	panic(fmt.Sprintf("eqValues: unsupported %T", a))
}

// GoObj: an opaque engine-side object (e.g. context, timer) boxed as a value.
type GoObj struct {
	Kind  string
	ID    int
	Attrs map[string]Value
}

// ---------- symbolic byte slices ----------

// SymBytes is a []byte whose offset/len/cap are BV64 terms over a byte memory.
type SymBytes struct {
	Mem           *ByteMem
	Off, Len, Cap *Term
	Nil           bool
}

// ByteMem is a mutable byte memory object: an SMT array term updated in place.
type ByteMem struct {
	ID  int
	Arr *Term     // base array (Array BV64 BV8)
	W   *memWrite // persistent list of writes over the base
}

func valueString(v Value) string {
	switch v := v.(type) {
	case nil:
		return "<nil>"
	case *Term:
		return v.SMT()
	case Ptr:
		if v == nil {
			return "nil"
		}
		return fmt.Sprintf("&%p", v)
	case Struct:
		var sb strings.Builder
		sb.WriteString("{")
		for i, x := range v {
			if i > 0 {
				sb.WriteString(", ")
			}
			sb.WriteString(valueString(x))
		}
		sb.WriteString("}")
		return sb.String()
	case Array:
		return "[...]" + valueString(Struct(v))
	case Slice:
		if v == nil {
			return "[]nil"
		}
		return "[]" + valueString(Struct(v))
	case Tuple:
		return "(" + valueString(Struct(v)) + ")"
	case Iface:
		if v.T == nil {
			return "iface(nil)"
		}
		return fmt.Sprintf("iface(%v:%s)", v.T, valueString(v.V))
	case *MapObj:
		if v == nil {
			return "map(nil)"
		}
		var sb strings.Builder
		sb.WriteString("map[")
		for _, en := range v.live() {
			sb.WriteString(valueString(en.K) + ":" + valueString(en.V) + " ")
		}
		sb.WriteString("]")
		return sb.String()
	case *ErrVal:
		return fmt.Sprintf("err#%d(%s)", v.ID, v.Name)
	case *ssa.Function:
		if v == nil {
			return "func(nil)"
		}
		return v.String()
	case *Closure:
		return "closure(" + v.Fn.String() + ")"
	}
	return fmt.Sprintf("%T", v)
}
