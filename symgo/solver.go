package main

// One long-lived incremental SMT solver process per worker.

import (
	"bufio"
	"fmt"
	"io"
	"os"
	"os/exec"
	"sort"
	"strconv"
	"strings"
	"sync/atomic"
	"time"
)

type SolverStats struct {
	Queries, Sat, Unsat, Unknown int
	Time                         time.Duration
	Restarts                     int
	Fallbacks                    int
}

type Solver struct {
	kind    string // cvc5 | z3 | z3-new
	cmd     *exec.Cmd
	in      io.WriteCloser
	out     *bufio.Reader
	stack   []*Term          // asserted terms, one push level each
	declLvl map[string]int   // var name -> level at which declared
	tt      *Terms
	timeout int // ms per query
	Stats   SolverStats
	logw    io.Writer
	dead    bool
	lastErr string
	noModel bool
	deadline time.Time // when set and passed, no fallback queries are attempted any more
	dag      *dagPrinter
	dagLvl   []int // number of DAG definitions alive below each stack level
}

func solverArgv(kind string, timeoutMs int) []string {
	switch kind {
	case "cvc5":
		return []string{"cvc5", "--incremental", "--lang", "smt2", "--strings-exp", "-q", "--produce-models",
			"--tlimit-per=" + strconv.Itoa(timeoutMs)}
	case "z3":
		return []string{"z3", "-in", "-t:" + strconv.Itoa(timeoutMs)}
	case "z3-new":
		return []string{"z3-new", "-in", "-t:" + strconv.Itoa(timeoutMs)}
	}
	panic("unknown solver " + kind)
}

func NewSolver(kind string, tt *Terms, timeoutMs int, logw io.Writer) (*Solver, error) {
	s := &Solver{kind: kind, tt: tt, timeout: timeoutMs, logw: logw}
	if err := s.start(); err != nil {
		return nil, err
	}
	return s, nil
}

func (s *Solver) start() error {
	inc := s.timeout
	if inc > 5000 {
		inc = 5000 // incremental attempts are cut short; the from-scratch fallback gets the full budget
	}
	argv := solverArgv(s.kind, inc)
	cmd := exec.Command(argv[0], argv[1:]...)
	in, err := cmd.StdinPipe()
	if err != nil {
		return err
	}
	outp, err := cmd.StdoutPipe()
	if err != nil {
		return err
	}
	cmd.Stderr = os.Stderr
	if err := cmd.Start(); err != nil {
		return err
	}
	s.cmd, s.in, s.out = cmd, in, bufio.NewReaderSize(outp, 1<<16)
	s.stack = nil
	s.dag, s.dagLvl = nil, nil
	s.declLvl = map[string]int{}
	s.dead = false
	s.send("(set-option :produce-models true)")
	s.send("(set-logic ALL)")
	return nil
}

func (s *Solver) Close() {
	if s.cmd != nil {
		s.in.Close()
		s.cmd.Process.Kill()
		s.cmd.Wait()
		s.cmd = nil
	}
}

func (s *Solver) restart() {
	s.Close()
	s.Stats.Restarts++
	if err := s.start(); err != nil {
		panic(err)
	}
}

func (s *Solver) send(line string) {
	if s.logw != nil {
		fmt.Fprintln(s.logw, line)
	}
	if _, err := io.WriteString(s.in, line+"\n"); err != nil {
		s.dead = true
	}
}

func (s *Solver) readLine() string {
	for {
		l, err := s.out.ReadString('\n')
		if err != nil {
			s.dead = true
			return "(error \"solver died\")"
		}
		l = strings.TrimSpace(l)
		if l == "" || strings.Contains(l, "conda") {
			continue
		}
		return l
	}
}

// readSexp reads one balanced s-expression (possibly multi-line).
func (s *Solver) readSexp() string {
	var sb strings.Builder
	depth := 0
	started := false
	inStr := false
	for {
		l, err := s.out.ReadString('\n')
		if err != nil {
			s.dead = true
			return sb.String()
		}
		if !started && (strings.TrimSpace(l) == "" || strings.Contains(l, "conda")) {
			continue
		}
		for i := 0; i < len(l); i++ {
			c := l[i]
			if inStr {
				if c == '"' {
					inStr = false
				}
				continue
			}
			switch c {
			case '"':
				inStr = true
			case '(':
				depth++
				started = true
			case ')':
				depth--
			}
		}
		sb.WriteString(l)
		if started && depth <= 0 && !inStr {
			return sb.String()
		}
		if !started {
			return sb.String()
		}
	}
}

func (s *Solver) declareVars(t *Term) {
	var vs []*Term
	t.Vars(map[*Term]bool{}, &vs)
	lvl := len(s.stack)
	for _, v := range vs {
		if _, ok := s.declLvl[v.S]; ok {
			continue
		}
		s.declLvl[v.S] = lvl
		s.send(fmt.Sprintf("(declare-const |%s| %s)", v.S, v.Sort.SMT()))
		if ax, ok := s.tt.VarAxioms[v.S]; ok {
			s.send("(assert " + ax.SMT() + ")")
		}
	}
}

func (s *Solver) popTo(n int) {
	if n >= len(s.stack) {
		return
	}
	k := len(s.stack) - n
	s.send(fmt.Sprintf("(pop %d)", k))
	s.stack = s.stack[:n]
	if s.dag != nil && len(s.dagLvl) > n {
		s.dag.forget(s.dagLvl[n])
		s.dagLvl = s.dagLvl[:n]
	}
	for name, l := range s.declLvl {
		if l > n {
			delete(s.declLvl, name)
		}
	}
}

func (s *Solver) pushAssert(t *Term) {
	if s.dag == nil {
		s.dag = newDagPrinter()
	}
	s.dagLvl = append(s.dagLvl, len(s.dag.order))
	s.send("(push 1)")
	s.stack = append(s.stack, t)
	s.declareVars(t)
	defs, text := s.dag.render(t)
	for _, d := range defs {
		s.send(d)
	}
	s.send("(assert " + text + ")")
}

// Sync makes the solver's assertion stack equal to pc.
func (s *Solver) Sync(pc []*Term) {
	if s.dead {
		s.restart()
	}
	i := 0
	for i < len(pc) && i < len(s.stack) && pc[i] == s.stack[i] {
		i++
	}
	s.popTo(i)
	for ; i < len(pc); i++ {
		s.pushAssert(pc[i])
	}
}

// Check returns "sat", "unsat" or "unknown" for the conjunction pc.
func (s *Solver) Check(pc []*Term) string {
	t0 := time.Now()
	s.noModel = false
	s.Sync(pc)
	s.send("(check-sat)")
	r := s.readLine()
	s.Stats.Queries++
	s.Stats.Time += time.Since(t0)
	switch r {
	case "sat":
		s.Stats.Sat++
	case "unsat":
		s.Stats.Unsat++
	default:
		// incremental mode gave up: retry the whole conjunction from scratch on fresh solvers
		// (not once the exploration's time budget is used up: the path ends as inconclusive)
		late := !s.deadline.IsZero() && time.Now().After(s.deadline)
		if fr := ""; late {
		} else if fr = s.fallback(); fr == "sat" || fr == "unsat" {
			s.Stats.Fallbacks++
			if r != "unknown" {
				s.restart()
			}
			if fr == "sat" {
				s.Stats.Sat++
				// leave the incremental solver without a model: callers needing values re-check
			} else {
				s.Stats.Unsat++
			}
			s.noModel = fr == "sat"
			return fr
		}
		s.Stats.Unknown++
		s.lastErr = r
		s.dumpStack(r)
		if r != "unknown" {
			// (error ...) or timeout text: treat as unknown, restart to resynchronise
			s.restart()
			r = "unknown"
		}
	}
	return r
}

// Values evaluates terms in the current model (after a sat Check on the same stack).
func (s *Solver) Values(ts []*Term) ([]*Term, error) {
	if len(ts) == 0 {
		return nil, nil
	}
	if s.noModel {
		return s.fallbackValues(ts)
	}
	res := make([]*Term, len(ts))
	before := len(s.declLvl)
	for _, t := range ts {
		s.declareVars(t)
	}
	if len(s.declLvl) != before {
		// new declarations/axioms invalidate the solver's model: re-check first
		s.send("(check-sat)")
		if r := s.readLine(); r != "sat" {
			return nil, fmt.Errorf("re-check after declaring variables: %s", r)
		}
	}
	for i, t := range ts {
		if s.dag != nil && s.dag.treeSize(t) > 16<<20 {
			return nil, fmt.Errorf("get-value: term too large to print (%d)", s.dag.treeSize(t))
		}
		s.send("(get-value (" + t.SMT() + "))")
		sx := s.readSexp()
		if os.Getenv("SYMGO_DEBUG") != "" {
			fmt.Fprintf(os.Stderr, "get-value %s -> %q\n", t.SMT(), sx)
		}
		v, err := parseValue(s.tt, sx, t)
		if err != nil {
			return nil, fmt.Errorf("get-value %s: %v (%q)", t.SMT(), err, sx)
		}
		res[i] = v
	}
	return res, nil
}

// parseValue parses "((term value))" output.
func parseValue(tt *Terms, sx string, t *Term) (*Term, error) {
	sx = strings.TrimSpace(sx)
	if strings.HasPrefix(sx, "(error") {
		return nil, fmt.Errorf("solver error")
	}
	// strip outer "((" and "))": find the value as the suffix after the term text.
	// Robust approach: tokenize the s-expression and take the second element of the first pair.
	toks, err := tokenizeSexp(sx)
	if err != nil {
		return nil, err
	}
	// toks is a tree: [[term value]]
	lst, ok := toks.([]interface{})
	if !ok || len(lst) != 1 {
		return nil, fmt.Errorf("unexpected shape")
	}
	pair, ok := lst[0].([]interface{})
	if !ok || len(pair) != 2 {
		return nil, fmt.Errorf("unexpected pair shape")
	}
	return valueFromSexp(tt, pair[1], t.Sort)
}

func valueFromSexp(tt *Terms, v interface{}, so Sort) (*Term, error) {
	switch so.K {
	case KBool:
		if a, ok := v.(string); ok {
			return tt.Bool(a == "true"), nil
		}
	case KBV:
		if a, ok := v.(string); ok {
			if strings.HasPrefix(a, "#x") {
				u, err := strconv.ParseUint(a[2:], 16, 64)
				return tt.BV(so.W, u), err
			}
			if strings.HasPrefix(a, "#b") {
				u, err := strconv.ParseUint(a[2:], 2, 64)
				return tt.BV(so.W, u), err
			}
		}
		if l, ok := v.([]interface{}); ok && len(l) == 3 { // (_ bv5 64)
			if a, ok := l[1].(string); ok && strings.HasPrefix(a, "bv") {
				u, err := strconv.ParseUint(a[2:], 10, 64)
				return tt.BV(so.W, u), err
			}
		}
	case KInt:
		if a, ok := v.(string); ok {
			i, err := strconv.ParseInt(a, 10, 64)
			return tt.Int(i), err
		}
		if l, ok := v.([]interface{}); ok && len(l) == 2 {
			if a, ok := l[1].(string); ok {
				i, err := strconv.ParseInt(a, 10, 64)
				return tt.Int(-i), err
			}
		}
	case KStr:
		if a, ok := v.(string); ok && len(a) >= 2 && a[0] == '"' {
			return tt.Str(unescapeSMT(a[1 : len(a)-1])), nil
		}
	}
	return nil, fmt.Errorf("cannot parse value %v of sort %v", v, so)
}

func unescapeSMT(s string) string {
	var out []byte
	for i := 0; i < len(s); i++ {
		c := s[i]
		if c == '"' && i+1 < len(s) && s[i+1] == '"' {
			out = append(out, '"')
			i++
			continue
		}
		if c == '\\' && i+1 < len(s) && s[i+1] == 'u' {
			// \u{X..} or \uXXXX
			if i+2 < len(s) && s[i+2] == '{' {
				j := strings.IndexByte(s[i+3:], '}')
				if j >= 0 {
					v, err := strconv.ParseUint(s[i+3:i+3+j], 16, 32)
					if err == nil {
						out = append(out, byte(v))
						i = i + 3 + j
						continue
					}
				}
			} else if i+5 < len(s) {
				v, err := strconv.ParseUint(s[i+2:i+6], 16, 32)
				if err == nil {
					out = append(out, byte(v))
					i += 5
					continue
				}
			}
		}
		if c == '\\' && i+1 < len(s) && s[i+1] == 'x' && i+3 < len(s) {
			v, err := strconv.ParseUint(s[i+2:i+4], 16, 32)
			if err == nil {
				out = append(out, byte(v))
				i += 3
				continue
			}
		}
		out = append(out, c)
	}
	return string(out)
}

// tokenizeSexp parses an s-expression into nested []interface{} / string.
func tokenizeSexp(s string) (interface{}, error) {
	pos := 0
	var parse func() (interface{}, error)
	skip := func() {
		for pos < len(s) && (s[pos] == ' ' || s[pos] == '\n' || s[pos] == '\t' || s[pos] == '\r') {
			pos++
		}
	}
	parse = func() (interface{}, error) {
		skip()
		if pos >= len(s) {
			return nil, fmt.Errorf("eof")
		}
		if s[pos] == '(' {
			pos++
			var l []interface{}
			for {
				skip()
				if pos >= len(s) {
					return nil, fmt.Errorf("eof in list")
				}
				if s[pos] == ')' {
					pos++
					return l, nil
				}
				x, err := parse()
				if err != nil {
					return nil, err
				}
				l = append(l, x)
			}
		}
		if s[pos] == '"' {
			st := pos
			pos++
			for pos < len(s) {
				if s[pos] == '"' {
					if pos+1 < len(s) && s[pos+1] == '"' {
						pos += 2
						continue
					}
					pos++
					return s[st:pos], nil
				}
				pos++
			}
			return nil, fmt.Errorf("eof in string")
		}
		if s[pos] == '|' {
			st := pos
			pos++
			for pos < len(s) && s[pos] != '|' {
				pos++
			}
			pos++
			return s[st:pos], nil
		}
		st := pos
		for pos < len(s) && !strings.ContainsRune(" \n\t\r()", rune(s[pos])) {
			pos++
		}
		return s[st:pos], nil
	}
	return parse()
}

// Model returns values for all currently declared variables (after a sat Check).
func (s *Solver) Model() (map[*Term]*Term, error) {
	if s.noModel {
		return nil, fmt.Errorf("no model (answer came from the fallback solver)")
	}
	names := make([]string, 0, len(s.declLvl))
	for n := range s.declLvl {
		names = append(names, n)
	}
	if len(names) == 0 {
		return map[*Term]*Term{}, nil
	}
	sort.Strings(names)
	var sb strings.Builder
	sb.WriteString("(get-value (")
	vars := make([]*Term, len(names))
	for i, n := range names {
		v := s.tt.tab["v"+n]
		vars[i] = v
		sb.WriteString(v.SMT())
		sb.WriteByte(' ')
	}
	sb.WriteString("))")
	s.send(sb.String())
	sx := s.readSexp()
	tree, err := tokenizeSexp(strings.TrimSpace(sx))
	if err != nil {
		return nil, err
	}
	lst, ok := tree.([]interface{})
	if !ok || len(lst) != len(vars) {
		return nil, fmt.Errorf("model: unexpected shape %q", sx)
	}
	m := make(map[*Term]*Term, len(vars))
	for i, it := range lst {
		pair, ok := it.([]interface{})
		if !ok || len(pair) != 2 {
			return nil, fmt.Errorf("model: bad pair")
		}
		v, err := valueFromSexp(s.tt, pair[1], vars[i].Sort)
		if err != nil {
			return nil, err
		}
		m[vars[i]] = v
	}
	return m, nil
}

var unknownDumpN int32

func (s *Solver) dumpStack(res string) {
	n := atomic.AddInt32(&unknownDumpN, 1)
	if n > 5 {
		return
	}
	script := s.script(res)
	if len(script) > 4<<20 {
		return // disk space is limited: only small queries are kept for inspection
	}
	os.MkdirAll("/verif/.work", 0o755)
	os.WriteFile(fmt.Sprintf("/verif/.work/unknown-%d-%d.smt2", os.Getpid(), n), []byte(script), 0o644)
}

// fallback solves the current stack non-incrementally with cvc5 and then z3-new.
func (s *Solver) fallback() string {
	script := s.script("fallback")
	for _, argv := range [][]string{
		{"cvc5", "--lang", "smt2", "--strings-exp", "-q", "--tlimit=" + strconv.Itoa(s.timeout)},
		{"z3-new", "-in", "-T:" + strconv.Itoa(s.timeout/1000+1)},
	} {
		cmd := exec.Command(argv[0], argv[1:]...)
		cmd.Stdin = strings.NewReader(script)
		out, _ := cmd.Output()
		for _, l := range strings.Split(string(out), "\n") {
			l = strings.TrimSpace(l)
			if l == "sat" || l == "unsat" {
				return l
			}
		}
	}
	return "unknown"
}

func (s *Solver) script(res string) string {
	var sb strings.Builder
	sb.WriteString("; result: " + res + "\n(set-logic ALL)\n")
	seen := map[*Term]bool{}
	var vs []*Term
	for _, t := range s.stack {
		t.Vars(seen, &vs)
	}
	for _, v := range vs {
		sb.WriteString(fmt.Sprintf("(declare-const |%s| %s)\n", v.S, v.Sort.SMT()))
		if ax, ok := s.tt.VarAxioms[v.S]; ok {
			sb.WriteString("(assert " + ax.SMT() + ")\n")
		}
	}
	dp := newDagPrinter()
	for _, t := range s.stack {
		defs, text := dp.render(t)
		for _, d := range defs {
			sb.WriteString(d + "\n")
		}
		sb.WriteString("(assert " + text + ")\n")
	}
	sb.WriteString("(check-sat)\n")
	return sb.String()
}

// fallbackValues obtains values from a from-scratch solver run (used when the incremental solver gave up
// and the verdict came from the fallback).
func (s *Solver) fallbackValues(ts []*Term) ([]*Term, error) {
	script := strings.TrimSuffix(s.script("fallback-values"), "(check-sat)\n")
	seen := map[*Term]bool{}
	var declared []*Term
	for _, t := range s.stack {
		t.Vars(seen, &declared)
	}
	var sb strings.Builder
	sb.WriteString("(set-option :produce-models true)\n")
	sb.WriteString(script)
	for _, t := range ts {
		var vs []*Term
		t.Vars(seen, &vs)
		for _, v := range vs {
			sb.WriteString(fmt.Sprintf("(declare-const |%s| %s)\n", v.S, v.Sort.SMT()))
			if ax, ok := s.tt.VarAxioms[v.S]; ok {
				sb.WriteString("(assert " + ax.SMT() + ")\n")
			}
		}
	}
	sb.WriteString("(check-sat)\n")
	for _, t := range ts {
		sb.WriteString("(get-value (" + t.SMT() + "))\n")
	}
	for _, argv := range [][]string{
		{"cvc5", "--lang", "smt2", "--strings-exp", "-q", "--produce-models", "--tlimit=" + strconv.Itoa(s.timeout)},
		{"z3-new", "-in", "-T:" + strconv.Itoa(s.timeout/1000+1)},
	} {
		cmd := exec.Command(argv[0], argv[1:]...)
		cmd.Stdin = strings.NewReader(sb.String())
		out, _ := cmd.Output()
		txt := strings.TrimSpace(string(out))
		if !strings.HasPrefix(txt, "sat") {
			continue
		}
		rest := strings.TrimSpace(strings.TrimPrefix(txt, "sat"))
		res := make([]*Term, 0, len(ts))
		ok := true
		for _, t := range ts {
			// one s-expression per get-value
			depth, end := 0, -1
			inStr := false
			for i := 0; i < len(rest); i++ {
				c := rest[i]
				if inStr {
					if c == '"' {
						inStr = false
					}
					continue
				}
				if c == '"' {
					inStr = true
				} else if c == '(' {
					depth++
				} else if c == ')' {
					depth--
					if depth == 0 {
						end = i + 1
						break
					}
				}
			}
			if end < 0 {
				ok = false
				break
			}
			v, err := parseValue(s.tt, rest[:end], t)
			if err != nil {
				ok = false
				break
			}
			res = append(res, v)
			rest = strings.TrimSpace(rest[end:])
		}
		if ok {
			return res, nil
		}
	}
	return nil, fmt.Errorf("no model (fallback solvers gave no values)")
}
