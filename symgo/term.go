package main

// Terms: hash-consed SMT terms with constant folding.
// One *Terms store per worker (not safe for concurrent use).

import (
	"fmt"
	"math"
	"math/bits"
	"sort"
	"strconv"
	"strings"
)

type SortKind uint8

const (
	KBool SortKind = iota
	KBV
	KInt
	KStr
	KFP  // Float64
	KArr // (Array (_ BitVec 64) (_ BitVec 8))
)

type Sort struct {
	K SortKind
	W int // BV width
}

var (
	SBool = Sort{KBool, 0}
	SInt  = Sort{KInt, 0}
	SStr  = Sort{KStr, 0}
	SFP   = Sort{KFP, 0}
	SArr  = Sort{KArr, 0}
)

func BVSort(w int) Sort { return Sort{KBV, w} }

func (s Sort) SMT() string {
	switch s.K {
	case KBool:
		return "Bool"
	case KBV:
		return fmt.Sprintf("(_ BitVec %d)", s.W)
	case KInt:
		return "Int"
	case KStr:
		return "String"
	case KFP:
		return "(_ FloatingPoint 11 53)"
	case KArr:
		return "(Array (_ BitVec 64) (_ BitVec 8))"
	}
	return "?"
}

type Term struct {
	Op   string // "const", "var", or SMT operator (possibly indexed, e.g. "(_ extract 7 0)")
	Sort Sort
	Args []*Term
	B    bool
	U    uint64 // BV const
	I    int64  // Int const
	S    string // Str const / var name
	F    float64
	id   int
	smt  string // cached
}

func (t *Term) IsConst() bool { return t.Op == "const" }
func (t *Term) IsVar() bool   { return t.Op == "var" }

type Terms struct {
	tab   map[string]*Term
	n     int
	True  *Term
	False *Term
	fresh int
	// assumptions attached to variables at creation (e.g. ASCII restriction)
	VarAxioms map[string]*Term
	VarOrder  []string
}

func NewTerms() *Terms {
	tt := &Terms{tab: map[string]*Term{}, VarAxioms: map[string]*Term{}}
	tt.True = tt.Bool(true)
	tt.False = tt.Bool(false)
	return tt
}

func (tt *Terms) intern(key string, mk func() *Term) *Term {
	if t, ok := tt.tab[key]; ok {
		return t
	}
	t := mk()
	tt.n++
	t.id = tt.n
	tt.tab[key] = t
	return t
}

func (tt *Terms) Bool(b bool) *Term {
	k := "cb0"
	if b {
		k = "cb1"
	}
	return tt.intern(k, func() *Term { return &Term{Op: "const", Sort: SBool, B: b} })
}

func mask(w int) uint64 {
	if w >= 64 {
		return ^uint64(0)
	}
	return (uint64(1) << uint(w)) - 1
}

func (tt *Terms) BV(w int, u uint64) *Term {
	u &= mask(w)
	k := "cv" + strconv.Itoa(w) + ":" + strconv.FormatUint(u, 16)
	return tt.intern(k, func() *Term { return &Term{Op: "const", Sort: BVSort(w), U: u} })
}

func (tt *Terms) Int(i int64) *Term {
	k := "ci" + strconv.FormatInt(i, 10)
	return tt.intern(k, func() *Term { return &Term{Op: "const", Sort: SInt, I: i} })
}

func (tt *Terms) Str(s string) *Term {
	k := "cs" + s
	return tt.intern(k, func() *Term { return &Term{Op: "const", Sort: SStr, S: s} })
}

func (tt *Terms) FP(f float64) *Term {
	k := "cf" + strconv.FormatFloat(f, 'b', -1, 64)
	return tt.intern(k, func() *Term { return &Term{Op: "const", Sort: SFP, F: f} })
}

func (tt *Terms) Var(name string, s Sort) *Term {
	k := "v" + name
	return tt.intern(k, func() *Term { return &Term{Op: "var", Sort: s, S: name} })
}

func (tt *Terms) mk(op string, s Sort, args ...*Term) *Term {
	var sb strings.Builder
	sb.WriteString("o")
	sb.WriteString(op)
	sb.WriteByte('|')
	sb.WriteString(strconv.Itoa(int(s.K)))
	sb.WriteByte(':')
	sb.WriteString(strconv.Itoa(s.W))
	for _, a := range args {
		sb.WriteByte(',')
		sb.WriteString(strconv.Itoa(a.id))
	}
	return tt.intern(sb.String(), func() *Term {
		as := make([]*Term, len(args))
		copy(as, args)
		return &Term{Op: op, Sort: s, Args: as}
	})
}

// ---------- Bool ----------

func (tt *Terms) Not(a *Term) *Term {
	if a.IsConst() {
		return tt.Bool(!a.B)
	}
	if a.Op == "not" {
		return a.Args[0]
	}
	return tt.mk("not", SBool, a)
}

func (tt *Terms) And(a, b *Term) *Term {
	if a.IsConst() {
		if a.B {
			return b
		}
		return tt.False
	}
	if b.IsConst() {
		if b.B {
			return a
		}
		return tt.False
	}
	if a == b {
		return a
	}
	return tt.mk("and", SBool, a, b)
}

func (tt *Terms) Or(a, b *Term) *Term {
	if a.IsConst() {
		if a.B {
			return tt.True
		}
		return b
	}
	if b.IsConst() {
		if b.B {
			return tt.True
		}
		return a
	}
	if a == b {
		return a
	}
	return tt.mk("or", SBool, a, b)
}

func (tt *Terms) AndN(xs ...*Term) *Term {
	r := tt.True
	for _, x := range xs {
		r = tt.And(r, x)
	}
	return r
}

func (tt *Terms) Implies(a, b *Term) *Term { return tt.Or(tt.Not(a), b) }

func (tt *Terms) Ite(c, a, b *Term) *Term {
	if c.IsConst() {
		if c.B {
			return a
		}
		return b
	}
	if a == b {
		return a
	}
	if a.Sort.K == KBool {
		if a.IsConst() && b.IsConst() {
			if a.B {
				return c
			}
			return tt.Not(c)
		}
	}
	return tt.mk("ite", a.Sort, c, a, b)
}

func (tt *Terms) Eq(a, b *Term) *Term {
	if a == b {
		return tt.True
	}
	if a.Sort != b.Sort {
		panic(fmt.Sprintf("Eq: sort mismatch %v %v (%s vs %s)", a.Sort, b.Sort, a.SMT(), b.SMT()))
	}
	if a.IsConst() && b.IsConst() {
		switch a.Sort.K {
		case KBool:
			return tt.Bool(a.B == b.B)
		case KBV:
			return tt.Bool(a.U == b.U)
		case KInt:
			return tt.Bool(a.I == b.I)
		case KStr:
			return tt.Bool(a.S == b.S)
		case KFP:
			return tt.Bool(a.F == b.F)
		}
	}
	if a.Sort.K == KBool {
		if a.IsConst() {
			if a.B {
				return b
			}
			return tt.Not(b)
		}
		if b.IsConst() {
			if b.B {
				return a
			}
			return tt.Not(a)
		}
	}
	// canonical order
	if a.id > b.id {
		a, b = b, a
	}
	if a.Sort.K == KBV {
		// int2bv(x) == int2bv(y) for lengths
		if x, ok := tt.asLen(a); ok {
			if y, ok := tt.asLen(b); ok {
				return tt.Eq(x, y)
			}
		}
		if x, ok := tt.asLen(b); ok {
			if y, ok := tt.asLen(a); ok {
				return tt.Eq(y, x)
			}
		}
		// byte of string vs const: int2bv8(to_code(at s i)) == c
		if r := tt.byteEq(a, b); r != nil {
			return r
		}
		if r := tt.byteEq(b, a); r != nil {
			return r
		}
	}
	if a.Sort.K == KStr {
		// conflicting constant prefixes / suffixes decide the equality syntactically
		pa, ea := strPrefix(a)
		pb, eb := strPrefix(b)
		n := len(pa)
		if len(pb) < n {
			n = len(pb)
		}
		if pa[:n] != pb[:n] {
			return tt.False
		}
		if ea && len(pb) > len(pa) || eb && len(pa) > len(pb) {
			return tt.False // one side is exactly a constant shorter than the other's known prefix
		}
		sa, sb := strSuffix(a), strSuffix(b)
		m := len(sa)
		if len(sb) < m {
			m = len(sb)
		}
		if sa[len(sa)-m:] != sb[len(sb)-m:] {
			return tt.False
		}
	}
	return tt.mk("=", SBool, a, b)
}

// byteEq: a = I2BV8(str.to_code(x)), b const -> x == from_code(b)
func (tt *Terms) byteEq(a, b *Term) *Term {
	if a.Op == "(_ int2bv 8)" && a.Args[0].Op == "str.to_code" && b.IsConst() {
		return tt.Eq(a.Args[0].Args[0], tt.Str(string([]byte{byte(b.U)})))
	}
	return nil
}

// asLen: view a BV64 term as an Int term when it denotes a small non-negative
// integer (string length arithmetic): int2bv(x) or a constant < 2^62.
func (tt *Terms) asLen(a *Term) (*Term, bool) {
	if a.Sort.K != KBV {
		return nil, false
	}
	if a.Op == "(_ int2bv 64)" && a.Sort.W == 64 {
		return a.Args[0], true
	}
	if a.IsConst() && a.Sort.W == 64 && a.U < (1<<62) {
		return tt.Int(int64(a.U)), true
	}
	return nil, false
}

func (tt *Terms) isI2BV(a *Term) bool { return a.Op == "(_ int2bv 64)" }

// ---------- BV ----------

func sext64(u uint64, w int) int64 {
	if w >= 64 {
		return int64(u)
	}
	sh := uint(64 - w)
	return int64(u<<sh) >> sh
}

// BVBin: op in bvadd bvsub bvmul bvudiv bvurem bvsdiv bvsrem bvand bvor bvxor bvshl bvlshr bvashr
func (tt *Terms) BVBin(op string, a, b *Term) *Term {
	w := a.Sort.W
	if a.Sort != b.Sort {
		panic(fmt.Sprintf("BVBin %s: sort mismatch %v %v", op, a.Sort, b.Sort))
	}
	if a.IsConst() && b.IsConst() {
		x, y := a.U, b.U
		var r uint64
		ok := true
		switch op {
		case "bvadd":
			r = x + y
		case "bvsub":
			r = x - y
		case "bvmul":
			r = x * y
		case "bvudiv":
			if y == 0 {
				r = mask(w)
			} else {
				r = x / y
			}
		case "bvurem":
			if y == 0 {
				r = x
			} else {
				r = x % y
			}
		case "bvsdiv":
			sx, sy := sext64(x, w), sext64(y, w)
			if sy == 0 {
				ok = false
			} else if sy == -1 {
				r = uint64(-sx)
			} else {
				r = uint64(sx / sy)
			}
		case "bvsrem":
			sx, sy := sext64(x, w), sext64(y, w)
			if sy == 0 {
				ok = false
			} else if sy == -1 {
				r = 0
			} else {
				r = uint64(sx % sy)
			}
		case "bvand":
			r = x & y
		case "bvor":
			r = x | y
		case "bvxor":
			r = x ^ y
		case "bvshl":
			if y >= uint64(w) {
				r = 0
			} else {
				r = x << y
			}
		case "bvlshr":
			if y >= uint64(w) {
				r = 0
			} else {
				r = x >> y
			}
		case "bvashr":
			sx := sext64(x, w)
			if y >= uint64(w) {
				if sx < 0 {
					r = ^uint64(0)
				} else {
					r = 0
				}
			} else {
				r = uint64(sx >> y)
			}
		default:
			panic("BVBin: " + op)
		}
		if ok {
			return tt.BV(w, r)
		}
	}
	// arithmetic with a constant distributes over an ite tree with constant leaves (bits.Len64 chains)
	if b.IsConst() && a.Op == "ite" && iteConstLeaves(a, 0) {
		return tt.mapIte(a, func(x *Term) *Term { return tt.BVBin(op, x, b) }, map[*Term]*Term{})
	}
	if a.IsConst() && b.Op == "ite" && iteConstLeaves(b, 0) {
		return tt.mapIte(b, func(x *Term) *Term { return tt.BVBin(op, a, x) }, map[*Term]*Term{})
	}
	// length arithmetic stays in Int
	if w == 64 && (op == "bvadd" || op == "bvsub") {
		if tt.isI2BV(a) || tt.isI2BV(b) {
			x, ok1 := tt.asLen(a)
			y, ok2 := tt.asLen(b)
			if ok1 && ok2 {
				if op == "bvadd" {
					return tt.I2BV(64, tt.IAdd(x, y))
				}
				return tt.I2BV(64, tt.ISub(x, y))
			}
		}
	}
	// identities
	switch op {
	case "bvadd", "bvor", "bvxor":
		if a.IsConst() && a.U == 0 {
			return b
		}
		if b.IsConst() && b.U == 0 {
			return a
		}
	case "bvsub", "bvshl", "bvlshr", "bvashr":
		if b.IsConst() && b.U == 0 {
			return a
		}
	case "bvand":
		if a.IsConst() && a.U == 0 || b.IsConst() && b.U == 0 {
			return tt.BV(w, 0)
		}
		if a.IsConst() && a.U == mask(w) {
			return b
		}
		if b.IsConst() && b.U == mask(w) {
			return a
		}
	case "bvmul":
		if a.IsConst() && a.U == 1 {
			return b
		}
		if b.IsConst() && b.U == 1 {
			return a
		}
		if a.IsConst() && a.U == 0 || b.IsConst() && b.U == 0 {
			return tt.BV(w, 0)
		}
	}
	if (op == "bvadd" || op == "bvmul" || op == "bvand" || op == "bvor" || op == "bvxor") && a.id > b.id {
		a, b = b, a
	}
	return tt.mk(op, a.Sort, a, b)
}

func (tt *Terms) BVNot(a *Term) *Term {
	if a.IsConst() {
		return tt.BV(a.Sort.W, ^a.U)
	}
	return tt.mk("bvnot", a.Sort, a)
}

func (tt *Terms) BVNeg(a *Term) *Term {
	if a.IsConst() {
		return tt.BV(a.Sort.W, -a.U)
	}
	return tt.mk("bvneg", a.Sort, a)
}

// BVCmp: op in bvult bvule bvslt bvsle (others derived)
func (tt *Terms) BVCmp(op string, a, b *Term) *Term {
	w := a.Sort.W
	if a.Sort != b.Sort {
		panic(fmt.Sprintf("BVCmp %s: sort mismatch %v %v", op, a.Sort, b.Sort))
	}
	switch op {
	case "bvugt":
		return tt.BVCmp("bvult", b, a)
	case "bvuge":
		return tt.BVCmp("bvule", b, a)
	case "bvsgt":
		return tt.BVCmp("bvslt", b, a)
	case "bvsge":
		return tt.BVCmp("bvsle", b, a)
	}
	if a.IsConst() && b.IsConst() {
		switch op {
		case "bvult":
			return tt.Bool(a.U < b.U)
		case "bvule":
			return tt.Bool(a.U <= b.U)
		case "bvslt":
			return tt.Bool(sext64(a.U, w) < sext64(b.U, w))
		case "bvsle":
			return tt.Bool(sext64(a.U, w) <= sext64(b.U, w))
		}
	}
	if a == b {
		return tt.Bool(op == "bvule" || op == "bvsle")
	}
	// bytes of strings: unsigned comparison of str.to_code values stays in Int
	if w == 8 && (op == "bvult" || op == "bvule") {
		code := func(t *Term) (*Term, bool) {
			if t.Op == "(_ int2bv 8)" && t.Args[0].Op == "str.to_code" {
				return t.Args[0], true
			}
			if t.IsConst() {
				return tt.Int(int64(t.U)), true
			}
			return nil, false
		}
		x, ok1 := code(a)
		y, ok2 := code(b)
		if ok1 && ok2 && !(a.IsConst() && b.IsConst()) {
			if op == "bvult" {
				return tt.ILt(x, y)
			}
			return tt.ILe(x, y)
		}
	}
	if w == 64 && (tt.isI2BV(a) || tt.isI2BV(b)) {
		x, ok1 := tt.asLen(a)
		y, ok2 := tt.asLen(b)
		if ok1 && ok2 {
			if op == "bvult" || op == "bvslt" {
				return tt.ILt(x, y)
			}
			return tt.ILe(x, y)
		}
		// comparison of a length with a negative / huge constant
		if ok1 && b.IsConst() {
			neg := sext64(b.U, 64) < 0
			switch op {
			case "bvslt", "bvsle":
				if neg {
					return tt.False
				}
			case "bvult", "bvule":
				return tt.True // b >= 2^62 > any length
			}
		}
		if ok2 && a.IsConst() {
			neg := sext64(a.U, 64) < 0
			switch op {
			case "bvslt", "bvsle":
				if neg {
					return tt.True
				}
			case "bvult", "bvule":
				return tt.False
			}
		}
	}
	return tt.mk(op, SBool, a, b)
}

func (tt *Terms) Extract(hi, lo int, a *Term) *Term {
	w := hi - lo + 1
	if lo == 0 && w == a.Sort.W {
		return a
	}
	if a.IsConst() {
		return tt.BV(w, a.U>>uint(lo))
	}
	if lo == 0 && (a.Op == "(_ int2bv 64)" || a.Op == "(_ int2bv 32)") {
		return tt.I2BV(w, a.Args[0])
	}
	if lo == 0 && strings.HasPrefix(a.Op, "(_ zero_extend") && a.Args[0].Sort.W == w {
		return a.Args[0]
	}
	if lo == 0 && strings.HasPrefix(a.Op, "(_ sign_extend") && a.Args[0].Sort.W == w {
		return a.Args[0]
	}
	return tt.mk(fmt.Sprintf("(_ extract %d %d)", hi, lo), BVSort(w), a)
}

func (tt *Terms) ZExt(w int, a *Term) *Term {
	if a.Sort.W == w {
		return a
	}
	if a.Sort.W > w {
		return tt.Extract(w-1, 0, a)
	}
	if a.IsConst() {
		return tt.BV(w, a.U)
	}
	if strings.HasPrefix(a.Op, "(_ int2bv") {
		// value of a is (x mod 2^aw); only lift when x is known small: lengths/codes
		if a.Args[0].Op == "str.to_code" || a.Args[0].Op == "str.len" {
			return tt.I2BV(w, a.Args[0])
		}
	}
	return tt.mk(fmt.Sprintf("(_ zero_extend %d)", w-a.Sort.W), BVSort(w), a)
}

func (tt *Terms) SExt(w int, a *Term) *Term {
	if a.Sort.W == w {
		return a
	}
	if a.Sort.W > w {
		return tt.Extract(w-1, 0, a)
	}
	if a.IsConst() {
		return tt.BV(w, uint64(sext64(a.U, a.Sort.W)))
	}
	return tt.mk(fmt.Sprintf("(_ sign_extend %d)", w-a.Sort.W), BVSort(w), a)
}

// ---------- Int ----------

func (tt *Terms) IAdd(a, b *Term) *Term {
	if a.IsConst() && b.IsConst() {
		return tt.Int(a.I + b.I)
	}
	if a.IsConst() && a.I == 0 {
		return b
	}
	if b.IsConst() && b.I == 0 {
		return a
	}
	// (x + c1) + c2
	if b.IsConst() && a.Op == "+" && a.Args[1].IsConst() {
		return tt.IAdd(a.Args[0], tt.Int(a.Args[1].I+b.I))
	}
	if a.IsConst() {
		a, b = b, a
	}
	return tt.mk("+", SInt, a, b)
}

func (tt *Terms) ISub(a, b *Term) *Term {
	if a.IsConst() && b.IsConst() {
		return tt.Int(a.I - b.I)
	}
	if b.IsConst() {
		return tt.IAdd(a, tt.Int(-b.I))
	}
	if a == b {
		return tt.Int(0)
	}
	return tt.mk("-", SInt, a, b)
}

func (tt *Terms) ILt(a, b *Term) *Term {
	if a.IsConst() && b.IsConst() {
		return tt.Bool(a.I < b.I)
	}
	if a == b {
		return tt.False
	}
	if a.Op == "str.len" && b.IsConst() && b.I <= 0 {
		return tt.False
	}
	if b.Op == "str.len" && a.IsConst() && a.I < 0 {
		return tt.True
	}
	return tt.mk("<", SBool, a, b)
}

func (tt *Terms) ILe(a, b *Term) *Term {
	if a.IsConst() && b.IsConst() {
		return tt.Bool(a.I <= b.I)
	}
	if a == b {
		return tt.True
	}
	if b.Op == "str.len" && a.IsConst() && a.I <= 0 {
		return tt.True
	}
	if a.Op == "str.len" && b.IsConst() && b.I < 0 {
		return tt.False
	}
	return tt.mk("<=", SBool, a, b)
}

func (tt *Terms) I2BV(w int, a *Term) *Term {
	if a.IsConst() {
		return tt.BV(w, uint64(a.I))
	}
	if a.Op == "bv2nat" && a.Args[0].Sort.W == w {
		return a.Args[0]
	}
	return tt.mk(fmt.Sprintf("(_ int2bv %d)", w), BVSort(w), a)
}

// BV2I: unsigned value of a BV as Int.
func (tt *Terms) BV2I(a *Term) *Term {
	if a.IsConst() {
		return tt.Int(int64(a.U))
	}
	if strings.HasPrefix(a.Op, "(_ int2bv") {
		// assumed small non-negative (lengths, codes)
		return a.Args[0]
	}
	return tt.mk("bv2nat", SInt, a)
}

// ---------- String ----------

func (tt *Terms) Concat(a, b *Term) *Term {
	if a.IsConst() && b.IsConst() {
		return tt.Str(a.S + b.S)
	}
	if a.IsConst() && a.S == "" {
		return b
	}
	if b.IsConst() && b.S == "" {
		return a
	}
	// flatten: (a1 ++ a2) ++ b where a2,b const
	if b.IsConst() && a.Op == "str.++" && a.Args[len(a.Args)-1].IsConst() {
		n := len(a.Args)
		pre := a.Args[:n-1]
		last := tt.Str(a.Args[n-1].S + b.S)
		args := append(append([]*Term{}, pre...), last)
		return tt.mk("str.++", SStr, args...)
	}
	var args []*Term
	if a.Op == "str.++" {
		args = append(args, a.Args...)
	} else {
		args = append(args, a)
	}
	if b.Op == "str.++" {
		args = append(args, b.Args...)
	} else {
		args = append(args, b)
	}
	return tt.mk("str.++", SStr, args...)
}

func (tt *Terms) StrLen(a *Term) *Term {
	if a.IsConst() {
		return tt.Int(int64(len(a.S)))
	}
	if a.Op == "str.++" {
		r := tt.Int(0)
		for _, x := range a.Args {
			r = tt.IAdd(tt.StrLen(x), r)
		}
		return r
	}
	if isByteStr(a) {
		return tt.Int(1)
	}
	return tt.mk("str.len", SInt, a)
}

func (tt *Terms) SubStr(s, off, n *Term) *Term {
	if s.IsConst() && off.IsConst() && n.IsConst() {
		o, l := off.I, n.I
		if o < 0 || o > int64(len(s.S)) || l <= 0 {
			return tt.Str("")
		}
		if o+l > int64(len(s.S)) {
			l = int64(len(s.S)) - o
		}
		return tt.Str(s.S[o : o+l])
	}
	if n.IsConst() && n.I <= 0 {
		return tt.Str("")
	}
	// substr of concat with constant prefix
	if s.Op == "str.++" && off.IsConst() && s.Args[0].IsConst() {
		p := s.Args[0].S
		if off.I >= int64(len(p)) {
			rest := tt.concatN(s.Args[1:])
			return tt.SubStr(rest, tt.Int(off.I-int64(len(p))), tt.fixSubLen(n, s, rest))
		}
		if n.IsConst() && off.I+n.I <= int64(len(p)) {
			return tt.Str(p[off.I : off.I+n.I])
		}
	}
	// whole string: substr(s,0,len s)
	if off.IsConst() && off.I == 0 && n == tt.StrLen(s) {
		return s
	}
	if s.Op == "str.++" && off.IsConst() && n.IsConst() {
		all := true
		for _, a := range s.Args {
			if !isByteStr(a) && !(a.IsConst() && len(a.S) == 1) {
				all = false
			}
		}
		if all && off.I >= 0 && off.I+n.I <= int64(len(s.Args)) {
			return tt.concatN(s.Args[off.I : off.I+n.I])
		}
	}
	return tt.mk("str.substr", SStr, s, off, n)
}

// fixSubLen: when n was computed as len(s)-off and we strip a constant prefix,
// the remaining length expression is still valid (substr clamps), so keep n.
func (tt *Terms) fixSubLen(n, s, rest *Term) *Term { return n }

func (tt *Terms) concatN(xs []*Term) *Term {
	if len(xs) == 0 {
		return tt.Str("")
	}
	r := xs[0]
	for _, x := range xs[1:] {
		r = tt.Concat(r, x)
	}
	return r
}

func (tt *Terms) At(s, i *Term) *Term {
	if s.IsConst() && i.IsConst() {
		if i.I >= 0 && i.I < int64(len(s.S)) {
			return tt.Str(s.S[i.I : i.I+1])
		}
		return tt.Str("")
	}
	if s.Op == "str.++" && i.IsConst() && s.Args[0].IsConst() {
		p := s.Args[0].S
		if i.I < int64(len(p)) {
			return tt.Str(p[i.I : i.I+1])
		}
		return tt.At(tt.concatN(s.Args[1:]), tt.Int(i.I-int64(len(p))))
	}
	if s.Op == "str.++" && i.IsConst() && isByteStr(s.Args[0]) {
		if i.I == 0 {
			return s.Args[0]
		}
		return tt.At(tt.concatN(s.Args[1:]), tt.Int(i.I-1))
	}
	if isByteStr(s) && i.IsConst() {
		if i.I == 0 {
			return s
		}
		return tt.Str("")
	}
	return tt.mk("str.at", SStr, s, i)
}

func (tt *Terms) ToCode(s *Term) *Term {
	if isByteStr(s) {
		return s.Args[0] // to_code(from_code(bv2nat b)) = bv2nat b for a byte
	}
	if s.IsConst() {
		if len(s.S) == 1 {
			return tt.Int(int64(s.S[0]))
		}
		return tt.Int(-1)
	}
	return tt.mk("str.to_code", SInt, s)
}

func (tt *Terms) FromCode(i *Term) *Term {
	if i.IsConst() {
		if i.I >= 0 && i.I < 256 {
			return tt.Str(string([]byte{byte(i.I)}))
		}
	}
	if i.Op == "str.to_code" {
		// from_code(to_code(x)) == x when len x == 1; callers ensure
		return i.Args[0]
	}
	return tt.mk("str.from_code", SStr, i)
}

func (tt *Terms) PrefixOf(p, s *Term) *Term {
	if p.IsConst() && s.IsConst() {
		return tt.Bool(strings.HasPrefix(s.S, p.S))
	}
	if p.IsConst() && p.S == "" {
		return tt.True
	}
	if p.IsConst() && s.Op == "str.++" && s.Args[0].IsConst() {
		c := s.Args[0].S
		if len(c) >= len(p.S) {
			return tt.Bool(strings.HasPrefix(c, p.S))
		}
		if !strings.HasPrefix(p.S, c) {
			return tt.False
		}
	}
	return tt.mk("str.prefixof", SBool, p, s)
}

func (tt *Terms) SuffixOf(p, s *Term) *Term {
	if p.IsConst() && s.IsConst() {
		return tt.Bool(strings.HasSuffix(s.S, p.S))
	}
	if p.IsConst() && p.S == "" {
		return tt.True
	}
	return tt.mk("str.suffixof", SBool, p, s)
}

func (tt *Terms) Contains(s, sub *Term) *Term {
	if sub.IsConst() && s.IsConst() {
		return tt.Bool(strings.Contains(s.S, sub.S))
	}
	if sub.IsConst() && sub.S == "" {
		return tt.True
	}
	return tt.mk("str.contains", SBool, s, sub)
}

func (tt *Terms) IndexOf(s, sub, from *Term) *Term {
	if s.IsConst() && sub.IsConst() && from.IsConst() {
		if from.I < 0 || from.I > int64(len(s.S)) {
			return tt.Int(-1)
		}
		r := strings.Index(s.S[from.I:], sub.S)
		if r < 0 {
			return tt.Int(-1)
		}
		return tt.Int(int64(r) + from.I)
	}
	return tt.mk("str.indexof", SInt, s, sub, from)
}

func (tt *Terms) StrLt(a, b *Term) *Term {
	if a.IsConst() && b.IsConst() {
		return tt.Bool(a.S < b.S)
	}
	if a == b {
		return tt.False
	}
	return tt.mk("str.<", SBool, a, b)
}

func (tt *Terms) StrLe(a, b *Term) *Term {
	if a.IsConst() && b.IsConst() {
		return tt.Bool(a.S <= b.S)
	}
	if a == b {
		return tt.True
	}
	return tt.mk("str.<=", SBool, a, b)
}

func (tt *Terms) StrToInt(a *Term) *Term {
	if a.IsConst() {
		if a.S == "" {
			return tt.Int(-1)
		}
		for _, c := range []byte(a.S) {
			if c < '0' || c > '9' {
				return tt.Int(-1)
			}
		}
		if len(a.S) < 18 {
			v, _ := strconv.ParseInt(a.S, 10, 64)
			return tt.Int(v)
		}
	}
	return tt.mk("str.to_int", SInt, a)
}

func (tt *Terms) StrFromInt(a *Term) *Term {
	if a.IsConst() {
		if a.I < 0 {
			return tt.Str("")
		}
		return tt.Str(strconv.FormatInt(a.I, 10))
	}
	return tt.mk("str.from_int", SStr, a)
}

// ---------- Arrays (byte memory) ----------

func (tt *Terms) Select(a, i *Term) *Term {
	// read-over-write
	for a.Op == "store" {
		j := a.Args[1]
		if j == i {
			return a.Args[2]
		}
		if j.IsConst() && i.IsConst() {
			a = a.Args[0]
			continue
		}
		break
	}
	return tt.mk("select", BVSort(8), a, i)
}

func (tt *Terms) Store(a, i, v *Term) *Term {
	return tt.mk("store", SArr, a, i, v)
}

// ---------- FP ----------

func (tt *Terms) FPBin(op string, a, b *Term) *Term { // fp.mul fp.div fp.add fp.sub (RNE)
	if a.IsConst() && b.IsConst() {
		switch op {
		case "fp.mul":
			return tt.FP(a.F * b.F)
		case "fp.div":
			return tt.FP(a.F / b.F)
		case "fp.add":
			return tt.FP(a.F + b.F)
		case "fp.sub":
			return tt.FP(a.F - b.F)
		}
	}
	return tt.mk(op+" RNE", SFP, a, b)
}

func (tt *Terms) FPCmp(op string, a, b *Term) *Term { // fp.lt fp.leq fp.eq
	if a.IsConst() && b.IsConst() {
		switch op {
		case "fp.lt":
			return tt.Bool(a.F < b.F)
		case "fp.leq":
			return tt.Bool(a.F <= b.F)
		case "fp.eq":
			return tt.Bool(a.F == b.F)
		}
	}
	return tt.mk(op, SBool, a, b)
}

// ---------- helpers ----------

func (tt *Terms) FreshName(prefix string) string {
	tt.fresh++
	return fmt.Sprintf("%s!%d", prefix, tt.fresh)
}

// Free variables of t (names), deterministic order.
func (t *Term) Vars(seen map[*Term]bool, out *[]*Term) {
	if seen[t] {
		return
	}
	seen[t] = true
	if t.Op == "var" {
		*out = append(*out, t)
		return
	}
	for _, a := range t.Args {
		a.Vars(seen, out)
	}
}

func smtStrLit(s string) string {
	var sb strings.Builder
	sb.WriteByte('"')
	for i := 0; i < len(s); i++ {
		c := s[i]
		switch {
		case c == '"':
			sb.WriteString(`""`)
		case c == '\\' || c < 0x20 || c > 0x7e:
			fmt.Fprintf(&sb, `\u{%x}`, c)
		default:
			sb.WriteByte(c)
		}
	}
	sb.WriteByte('"')
	return sb.String()
}

func (t *Term) SMT() string {
	if t.smt != "" {
		return t.smt
	}
	var s string
	switch t.Op {
	case "const":
		switch t.Sort.K {
		case KBool:
			if t.B {
				s = "true"
			} else {
				s = "false"
			}
		case KBV:
			if t.Sort.W%4 == 0 {
				s = fmt.Sprintf("#x%0*x", t.Sort.W/4, t.U)
			} else {
				s = fmt.Sprintf("#b%0*b", t.Sort.W, t.U)
			}
		case KInt:
			if t.I < 0 {
				s = fmt.Sprintf("(- %d)", -t.I)
			} else {
				s = strconv.FormatInt(t.I, 10)
			}
		case KStr:
			s = smtStrLit(t.S)
		case KFP:
			b := math.Float64bits(t.F)
			s = fmt.Sprintf("(fp #b%01b #b%011b #x%013x)", b>>63, (b>>52)&0x7ff, b&((1<<52)-1))
		}
	case "var":
		s = "|" + t.S + "|"
	default:
		var sb strings.Builder
		sb.WriteByte('(')
		sb.WriteString(t.Op)
		for _, a := range t.Args {
			sb.WriteByte(' ')
			sb.WriteString(a.SMT())
		}
		sb.WriteByte(')')
		s = sb.String()
	}
	// cache only moderately sized strings to bound memory
	if len(s) < 4096 {
		t.smt = s
	}
	return s
}

func (t *Term) String() string { return t.SMT() }

// ConstBool returns (value, true) when t is a boolean constant.
func (t *Term) ConstBool() (bool, bool) {
	if t.IsConst() && t.Sort.K == KBool {
		return t.B, true
	}
	return false, false
}

func (t *Term) ConstU() (uint64, bool) {
	if t.IsConst() && t.Sort.K == KBV {
		return t.U, true
	}
	return 0, false
}

func (t *Term) ConstStr() (string, bool) {
	if t.IsConst() && t.Sort.K == KStr {
		return t.S, true
	}
	return "", false
}

// bits helpers used by intrinsics
func (tt *Terms) BitsLen64(a *Term) *Term {
	if a.IsConst() {
		return tt.BV(64, uint64(bits.Len64(a.U)))
	}
	// ite chain: smallest n such that a < 2^n
	r := tt.BV(64, 64)
	for n := 63; n >= 0; n-- {
		r = tt.Ite(tt.BVCmp("bvult", a, tt.BV(64, uint64(1)<<uint(n))), tt.BV(64, uint64(n)), r)
	}
	return r
}

func sortedKeys(m map[string]*Term) []string {
	ks := make([]string, 0, len(m))
	for k := range m {
		ks = append(ks, k)
	}
	sort.Strings(ks)
	return ks
}

// ---------- evaluation under a (partial) model ----------

// Subst rebuilds t with variables replaced by model values, through the folding constructors.
// defaultFor supplies a value for variables missing from the model (and may record it).
func (tt *Terms) Subst(t *Term, model map[*Term]*Term, memo map[*Term]*Term, defaultFor func(v *Term) *Term) *Term {
	if t.IsConst() {
		return t
	}
	if r, ok := memo[t]; ok {
		return r
	}
	var r *Term
	if t.IsVar() {
		if v, ok := model[t]; ok {
			r = v
		} else if defaultFor != nil {
			r = defaultFor(t)
		} else {
			r = t
		}
		memo[t] = r
		return r
	}
	args := make([]*Term, len(t.Args))
	allConst := true
	for i, a := range t.Args {
		args[i] = tt.Subst(a, model, memo, defaultFor)
		if !args[i].IsConst() {
			allConst = false
		}
	}
	r = tt.rebuild(t, args)
	_ = allConst
	memo[t] = r
	return r
}

func (tt *Terms) rebuild(t *Term, a []*Term) *Term {
	switch t.Op {
	case "not":
		return tt.Not(a[0])
	case "and":
		return tt.And(a[0], a[1])
	case "or":
		return tt.Or(a[0], a[1])
	case "ite":
		return tt.Ite(a[0], a[1], a[2])
	case "=":
		return tt.Eq(a[0], a[1])
	case "bvadd", "bvsub", "bvmul", "bvudiv", "bvurem", "bvsdiv", "bvsrem", "bvand", "bvor", "bvxor", "bvshl", "bvlshr", "bvashr":
		return tt.BVBin(t.Op, a[0], a[1])
	case "bvnot":
		return tt.BVNot(a[0])
	case "bvneg":
		return tt.BVNeg(a[0])
	case "bvult", "bvule", "bvslt", "bvsle":
		return tt.BVCmp(t.Op, a[0], a[1])
	case "+":
		return tt.IAdd(a[0], a[1])
	case "-":
		return tt.ISub(a[0], a[1])
	case "<":
		return tt.ILt(a[0], a[1])
	case "<=":
		return tt.ILe(a[0], a[1])
	case "bv2nat":
		return tt.BV2I(a[0])
	case "str.++":
		return tt.concatN(a)
	case "str.len":
		return tt.StrLen(a[0])
	case "str.substr":
		return tt.SubStr(a[0], a[1], a[2])
	case "str.at":
		return tt.At(a[0], a[1])
	case "str.to_code":
		return tt.ToCode(a[0])
	case "str.from_code":
		return tt.FromCode(a[0])
	case "str.prefixof":
		return tt.PrefixOf(a[0], a[1])
	case "str.suffixof":
		return tt.SuffixOf(a[0], a[1])
	case "str.contains":
		return tt.Contains(a[0], a[1])
	case "str.indexof":
		return tt.IndexOf(a[0], a[1], a[2])
	case "str.<":
		return tt.StrLt(a[0], a[1])
	case "str.<=":
		return tt.StrLe(a[0], a[1])
	case "str.to_int":
		return tt.StrToInt(a[0])
	case "str.from_int":
		return tt.StrFromInt(a[0])
	case "select":
		return tt.Select(a[0], a[1])
	}
	if strings.HasPrefix(t.Op, "(_ int2bv ") {
		return tt.I2BV(t.Sort.W, a[0])
	}
	if strings.HasPrefix(t.Op, "(_ extract ") {
		var hi, lo int
		fmt.Sscanf(t.Op, "(_ extract %d %d)", &hi, &lo)
		return tt.Extract(hi, lo, a[0])
	}
	if strings.HasPrefix(t.Op, "(_ zero_extend ") {
		return tt.ZExt(t.Sort.W, a[0])
	}
	if strings.HasPrefix(t.Op, "(_ sign_extend ") {
		return tt.SExt(t.Sort.W, a[0])
	}
	// unknown operator: keep symbolic (caller falls back to the solver)
	return tt.mk(t.Op, t.Sort, a...)
}

// strPrefix returns the known constant prefix of a string term and whether it is the whole string.
func strPrefix(t *Term) (string, bool) {
	if t.IsConst() {
		return t.S, true
	}
	if t.Op == "str.++" && t.Args[0].IsConst() {
		return t.Args[0].S, false
	}
	return "", false
}

func strSuffix(t *Term) string {
	if t.IsConst() {
		return t.S
	}
	if t.Op == "str.++" && t.Args[len(t.Args)-1].IsConst() {
		return t.Args[len(t.Args)-1].S
	}
	return ""
}

// isByteStr: a one-character string built from a byte: (str.from_code (bv2nat b8)).
func isByteStr(t *Term) bool {
	return t.Op == "str.from_code" && t.Args[0].Op == "bv2nat" && t.Args[0].Args[0].Sort.W == 8
}

func iteConstLeaves(t *Term, depth int) bool {
	if depth > 80 {
		return false
	}
	if t.IsConst() {
		return true
	}
	if t.Op != "ite" {
		return false
	}
	return iteConstLeaves(t.Args[1], depth+1) && iteConstLeaves(t.Args[2], depth+1)
}

func (tt *Terms) mapIte(t *Term, f func(*Term) *Term, memo map[*Term]*Term) *Term {
	if r, ok := memo[t]; ok {
		return r
	}
	var r *Term
	if t.IsConst() {
		r = f(t)
	} else {
		r = tt.Ite(t.Args[0], tt.mapIte(t.Args[1], f, memo), tt.mapIte(t.Args[2], f, memo))
	}
	memo[t] = r
	return r
}
