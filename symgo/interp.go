package main

import (
	"fmt"
	"sync/atomic"
	"go/constant"
	"go/token"
	"go/types"
	"os"
	"strings"
	"time"

	"golang.org/x/tools/go/ssa"
)

// ---------- path outcomes ----------

type OutcomeKind int

const (
	OutDone OutcomeKind = iota
	OutInfeasible
	OutAssumeFalse
	OutPanic
	OutDeadlock
	OutUnsupported
	OutBound
	OutExit
)

func (k OutcomeKind) String() string {
	return [...]string{"done", "infeasible", "assume-false", "panic", "deadlock", "unsupported", "bound", "exit"}[k]
}

type pathEnd struct {
	Kind OutcomeKind
	Msg  string
}

// ---------- decisions ----------

type Decision struct {
	N       int  // number of alternatives
	Choice  int  // current alternative
	Checked bool // feasibility of current alternative already established
	Solver  bool // binary solver-backed branch
	Tag     string
	Flip    bool // first alternative is the false side
	AltModel map[*Term]*Term // model of the second alternative (already known feasible)
	HasVal  bool   // concretisation decision: the value tried
	Val     uint64
	Lim     int // when >0: alternatives >= Lim were handed to other workers
}

func (d Decision) limit() int {
	if d.Lim > 0 {
		return d.Lim
	}
	return d.N
}

// ---------- frames & goroutines ----------

type deferred struct {
	fn   Value
	args []Value
	inst ssa.Instruction
}

type Frame struct {
	fn        *ssa.Function
	block     *ssa.BasicBlock
	prev      *ssa.BasicBlock
	pc        int
	env       map[ssa.Value]Value
	locals    []Ptr
	defers    []*deferred
	result    Value
	callInstr ssa.Instruction // instruction in caller awaiting the result (may be nil)
	panicv    *PanicVal       // frame is unwinding with this panic
	recovered bool
	deferOf   *Frame // this frame runs a deferred call of that frame
	syncBase  bool   // frame pushed by callSync; its return ends the nested loop
	syncDone  bool
	runDefersActive bool
	cuts      map[string]string
}

type PanicVal struct {
	V       Value
	Runtime string // non-empty for runtime errors
	Pos     token.Pos
}

type G struct {
	id       int
	stack    []*Frame
	done     bool
	name     string
	pending  *visOp // parked at this visible operation
	granted  bool
	mustFinish bool
	timer    *ChanObj // pseudo goroutine: fires timer
	timerKind string
	crashed  *PanicVal
	lockPtr  Ptr
}

func (g *G) top() *Frame {
	if len(g.stack) == 0 {
		return nil
	}
	return g.stack[len(g.stack)-1]
}

// ---------- Exec: one worker's interpreter ----------

type Violation struct {
	Instance int
	Label   string
	Kind    string // "assert", "panic", "deadlock"
	Msg     string
	Model   map[string]string // nondet var -> value (SMT literal)
	Nondets []NondetRec
	Trail   []int
	Pos     string
	Key     string
	Shape   []string
}

type NondetRec struct {
	Kind  string `json:"kind"`
	Name  string `json:"name"`
	Value string `json:"value"`
}

type Exec struct {
	prog    *ssa.Program
	ld      *Loaded
	tt      *Terms
	solver  *Solver
	harness *ssa.Function
	hcfg    *HarnessCfg
	instance int

	// per path
	pc       []*Term
	trail    []Decision
	pos      int
	gs       []*G
	cur      *G
	globals  map[*ssa.Global]Ptr
	steps    int
	nondets  []nondetVar
	covers   map[string]bool
	shape    []string
	objID    int
	preempts int
	observes []string
	sentinels map[string]*ErrVal
	ghost    map[string]Value
	initDone map[*ssa.Package]bool
	inInit   bool
	pathVio  int
	nondetN  int
	memReadDepth int
	envLog   []envLogRec
	envResults map[string]*Term
	serverClosed map[Ptr]bool
	ctxTimeouts []*GoObj
	timerDurs   []*Term // durations handed to time.After, in call order
	pcSet    map[*Term]bool
	eqSubst  map[*Term]*Term
	model    map[*Term]*Term
	modelOK  bool
	ModelHits, ModelMiss int
	ss       *schedState

	// accumulated over the run of this worker/instance
	Paths        int
	PathsByKind  map[OutcomeKind]int
	Covered      map[string]int
	Violations   []*Violation
	vioKeys      map[string]int
	Inconclusive []string
	Instrs       int64
	Blocks       int64
	FuncsSeen    map[*ssa.Function]bool
	Samples      []map[string]string
	IntrinsicsUsed map[string]bool
	CutsUsed     map[string]bool
	MaxTrail     int
	Unsupported  map[string]int

	maxSteps int
	deadline time.Time
	maxPaths int
	verbose  int
}

type envLogRec struct {
	name string
	args []Value
}

type nondetVar struct {
	kind string
	t    *Term
}

func (e *Exec) fail(kind OutcomeKind, format string, args ...interface{}) {
	panic(pathEnd{kind, fmt.Sprintf(format, args...)})
}

func (e *Exec) unsupported(format string, args ...interface{}) {
	e.fail(OutUnsupported, format, args...)
}

func (e *Exec) newID() int { e.objID++; return e.objID }

// ---------- solver-backed decisions ----------

func (e *Exec) check(extra *Term) string {
	pc := e.pc
	if extra != nil {
		pc = append(append([]*Term{}, e.pc...), extra)
	}
	r := e.solver.Check(pc)
	if r == "unknown" {
		e.Inconclusive = append(e.Inconclusive, "solver unknown: "+e.solver.lastErr)
	}
	return r
}

// evalModel evaluates c under the cached model (extended with defaults for new variables).
// Returns (value, true) when the model decides c.
func (e *Exec) evalModel(c *Term) (bool, bool) {
	if !e.modelOK {
		return false, false
	}
	memo := map[*Term]*Term{}
	r := e.tt.Subst(c, e.model, memo, func(v *Term) *Term {
		var d *Term
		switch v.Sort.K {
		case KBool:
			d = e.tt.False
		case KBV:
			d = e.tt.BV(v.Sort.W, 0)
		case KInt:
			d = e.tt.Int(0)
		case KStr:
			d = e.tt.Str("")
		default:
			return v
		}
		e.model[v] = d
		return d
	})
	if b, ok := r.ConstBool(); ok {
		return b, true
	}
	return false, false
}

// checkM is check() that refreshes the cached model after a sat answer.
func (e *Exec) checkM(extra *Term) string {
	r := e.check(extra)
	if r == "sat" {
		m, err := e.solver.Model()
		if err == nil {
			e.model, e.modelOK = m, true
		} else {
			e.modelOK = false
		}
	}
	return r
}

// branch decides a symbolic condition; returns the side taken on this path.
func (e *Exec) branch(c *Term) bool {
	if b, ok := c.ConstBool(); ok {
		return b
	}
	tt := e.tt
	// the condition (or its negation) is literally part of the path condition: no decision
	if e.pcSet[c] {
		return true
	}
	if e.pcSet[tt.Not(c)] {
		return false
	}
	// equalities x = t already in the path condition may decide c by substitution
	if len(e.eqSubst) > 0 {
		c2 := tt.Subst(c, e.eqSubst, map[*Term]*Term{}, nil)
		if b, ok := c2.ConstBool(); ok {
			return b
		}
	}
	if e.pos < len(e.trail) {
		d := &e.trail[e.pos]
		e.pos++
		side := (d.Choice == 0) != d.Flip
		lit := c
		if !side {
			lit = tt.Not(c)
		}
		if !d.Checked {
			d.Checked = true
			if d.AltModel != nil && d.Choice == 1 {
				// feasibility and a model were established when the decision was first met
				e.model = make(map[*Term]*Term, len(d.AltModel))
				for k, v := range d.AltModel {
					e.model[k] = v
				}
				e.modelOK = true
				e.ModelHits++
			} else if mv, ok := e.evalModel(lit); ok && mv {
				e.ModelHits++
			} else {
				e.ModelMiss++
				if e.checkM(lit) == "unsat" {
					e.fail(OutInfeasible, "")
				}
			}
		} else {
			// replayed prefix: keep the model only if it still satisfies the literal
			if e.modelOK {
				if mv, ok := e.evalModel(lit); !ok || !mv {
					e.modelOK = false
				}
			}
		}
		e.addPC(lit)
		return side
	}
	e.pos++
	if mv, ok := e.evalModel(c); ok {
		// the model decides c: that side is feasible without a query; ask the solver about the other side now
		e.ModelHits++
		lit, other := c, tt.Not(c)
		if !mv {
			lit, other = other, c
		}
		d := Decision{N: 2, Choice: 0, Checked: true, Solver: true, Flip: !mv}
		if e.check(other) == "unsat" {
			d.Lim = 1
		} else if m, err := e.solver.Model(); err == nil {
			d.AltModel = m
		}
		e.trail = append(e.trail, d)
		e.addPC(lit)
		return mv
	}
	e.ModelMiss++
	r := e.checkM(c)
	if r != "unsat" {
		e.trail = append(e.trail, Decision{N: 2, Choice: 0, Checked: true, Solver: true})
		e.addPC(c)
		return true
	}
	e.trail = append(e.trail, Decision{N: 2, Choice: 1, Checked: true, Solver: true})
	e.addPC(tt.Not(c))
	return false
}

// chooseN makes an n-ary decision without solver involvement.
func (e *Exec) chooseN(n int, tag string) int {
	if n <= 1 {
		return 0
	}
	if e.pos < len(e.trail) {
		d := &e.trail[e.pos]
		e.pos++
		if d.N != n {
			panic(fmt.Sprintf("non-deterministic replay: decision %d (%s) had N=%d now %d (%s)", e.pos-1, d.Tag, d.N, n, tag))
		}
		return d.Choice
	}
	e.pos++
	e.trail = append(e.trail, Decision{N: n, Choice: 0, Checked: true, Tag: tag})
	return 0
}

// assume adds c to the path condition; the path dies when infeasible.
func (e *Exec) assume(c *Term) {
	if b, ok := c.ConstBool(); ok {
		if !b {
			e.fail(OutAssumeFalse, "")
		}
		return
	}
	if mv, ok := e.evalModel(c); ok && mv {
		e.ModelHits++
		e.addPC(c)
		return
	}
	e.ModelMiss++
	if e.checkM(c) == "unsat" {
		e.fail(OutAssumeFalse, "")
	}
	e.addPC(c)
}

// concretize enumerates feasible values of a BV term (cap values).
func (e *Exec) concretize(t *Term, cap int, what string) uint64 {
	if u, ok := t.ConstU(); ok {
		return u
	}
	for i := 0; i < cap; i++ {
		var v *Term
		at := e.pos
		if at < len(e.trail) && e.trail[at].HasVal {
			// replay: the value tried at this decision is part of the trail (solver models are not
			// reproducible across re-executions)
			v = e.tt.BV(t.Sort.W, e.trail[at].Val)
		} else {
			r := e.check(nil)
			if r != "sat" {
				if os.Getenv("SYMGO_DEBUG") != "" {
					os.WriteFile(fmt.Sprintf("/verif/.work/concretize-%d.smt2", os.Getpid()), []byte(e.solver.script(what+" "+t.SMT())), 0o644)
				}
				e.fail(OutUnsupported, "concretize(%s): solver %s", what, r)
			}
			vs, err := e.solver.Values([]*Term{t})
			if err != nil {
				e.fail(OutUnsupported, "concretize(%s): %v", what, err)
			}
			v = vs[0]
		}
		taken := e.branch(e.tt.Eq(t, v))
		if e.pos > at && at < len(e.trail) {
			e.trail[at].HasVal, e.trail[at].Val = true, v.U
		}
		if taken {
			return v.U
		}
	}
	e.fail(OutBound, "concretize(%s): more than %d feasible values", what, cap)
	return 0
}

// ---------- globals ----------

func (e *Exec) globalAddr(gl *ssa.Global) Ptr {
	if p, ok := e.globals[gl]; ok {
		return p
	}
	p := new(Value)
	t := gl.Type().(*types.Pointer).Elem()
	*p = e.zero(t)
	e.globals[gl] = p
	// lazily run the package initialiser of repo packages
	if gl.Pkg != nil && e.ld.isRepoPkg(gl.Pkg.Pkg.Path()) {
		e.ensureInit(gl.Pkg)
		return e.globals[gl]
	}
	if gl.Pkg != nil && gl.Pkg.Pkg.Path() == "os" && gl.Name() == "Args" {
		*p = Slice{e.tt.Str("/usr/local/bin/00-plugin")}
		return p
	}
	// foreign error sentinels
	if it, ok := t.Underlying().(*types.Interface); ok && isErrorType(t) && it != nil {
		name := gl.Pkg.Pkg.Path() + "." + gl.Name()
		ev := e.sentinel(name)
		*p = Iface{T: errValType, V: ev}
	} else if !e.ld.allowForeignGlobal(gl) {
		// leave zero, but record
		e.IntrinsicsUsed["foreign-global-zero:"+gl.String()] = true
	}
	return p
}

func (e *Exec) sentinel(name string) *ErrVal {
	if ev, ok := e.sentinels[name]; ok {
		return ev
	}
	ev := &ErrVal{ID: e.newID(), Name: name}
	e.sentinels[name] = ev
	return ev
}

func isErrorType(t types.Type) bool {
	return types.Identical(t, types.Universe.Lookup("error").Type())
}

// ensureInit runs the synthetic init function of a repo package once per path,
// in tolerant mode: calls to non-repo init functions and protobuf registration are skipped.
func (e *Exec) ensureInit(pkg *ssa.Package) {
	if e.initDone[pkg] {
		return
	}
	e.initDone[pkg] = true
	init := pkg.Func("init")
	if init == nil || init.Blocks == nil {
		return
	}
	// make sure every global of the package has storage before init stores into it
	for _, m := range pkg.Members {
		if gl, ok := m.(*ssa.Global); ok {
			if _, ok := e.globals[gl]; !ok {
				p := new(Value)
				*p = e.zero(gl.Type().(*types.Pointer).Elem())
				e.globals[gl] = p
			}
		}
	}
	saved := e.inInit
	e.inInit = true
	g := e.cur
	if g == nil {
		g = &G{id: -1, name: "init"}
	}
	e.callSync(g, init, nil)
	e.inInit = saved
}

// ---------- calls ----------

func (e *Exec) newFrame(fn *ssa.Function, args []Value, env []Value) *Frame {
	if fn.Blocks == nil {
		e.unsupported("call of function without body: %s", fn.String())
	}
	if !e.FuncsSeen[fn] {
		e.FuncsSeen[fn] = true
	}
	fr := &Frame{fn: fn, env: make(map[ssa.Value]Value, 16)}
	fr.block = fn.Blocks[0]
	if len(args) != len(fn.Params) {
		panic(fmt.Sprintf("arity mismatch calling %s: %d args for %d params", fn, len(args), len(fn.Params)))
	}
	for i, p := range fn.Params {
		fr.env[p] = args[i]
	}
	for i, fv := range fn.FreeVars {
		fr.env[fv] = env[i]
	}
	for _, l := range fn.Locals {
		p := new(Value)
		*p = e.zero(l.Type().(*types.Pointer).Elem())
		fr.env[l] = p
	}
	return fr
}

// get evaluates an SSA operand in a frame.
func (e *Exec) get(fr *Frame, v ssa.Value) Value {
	switch v := v.(type) {
	case *ssa.Const:
		return e.constValue(v)
	case *ssa.Global:
		return e.globalAddr(v)
	case *ssa.Function:
		return v
	case *ssa.Builtin:
		return v
	}
	if r, ok := fr.env[v]; ok {
		return r
	}
	panic(fmt.Sprintf("get: no value for %T %s in %s", v, v.Name(), fr.fn))
}

func (e *Exec) constValue(c *ssa.Const) Value {
	t := c.Type()
	if c.Value == nil {
		if _, ok := t.(*types.TypeParam); ok {
			panic("const of typeparam")
		}
		if b, ok := t.(*types.Basic); ok && b.Kind() == types.UntypedNil {
			return Iface{}
		}
		return e.zero(t)
	}
	tt := e.tt
	switch ut := t.Underlying().(type) {
	case *types.Basic:
		if ut.Info()&types.IsBoolean != 0 {
			return tt.Bool(constant.BoolVal(c.Value))
		}
		if w, signed, ok := intWidth(ut); ok {
			if signed {
				return tt.BV(w, uint64(c.Int64()))
			}
			return tt.BV(w, c.Uint64())
		}
		if ut.Info()&types.IsString != 0 {
			if c.Value.Kind() == constant.String {
				return tt.Str(constant.StringVal(c.Value))
			}
			return tt.Str(string(rune(c.Int64())))
		}
		if ut.Info()&types.IsFloat != 0 {
			return tt.FP(c.Float64())
		}
	}
	panic(fmt.Sprintf("constValue: %v : %v", c, t))
}

// callValue invokes fnv with args on behalf of instruction instr in frame fr of goroutine g.
// It either pushes a frame (result delivered later) or computes the result at once.
func (e *Exec) callValue(g *G, fnv Value, args []Value, instr ssa.Instruction, deferOf *Frame) {
	var fn *ssa.Function
	var env []Value
	switch f := fnv.(type) {
	case *ssa.Function:
		if f == nil {
			e.raise(g, &PanicVal{Runtime: "nil func call"})
			return
		}
		fn = f
	case *Closure:
		if f == nil {
			e.raise(g, &PanicVal{Runtime: "nil func call"})
			return
		}
		fn, env = f.Fn, f.Env
	case *ssa.Builtin:
		r := e.callBuiltin(g, f, args, instr)
		e.deliver(g, instr, r, deferOf)
		return
	case *logNoop:
		e.deliver(g, instr, nil, deferOf)
		return
	case *errMethod:
		e.deliver(g, instr, e.callErrMethod(g, f, args), deferOf)
		return
	case *objMethod:
		e.deliver(g, instr, e.callObjMethod(g, f, args[1:]), deferOf)
		return
	default:
		panic(fmt.Sprintf("callValue: %T", fnv))
	}
	// cuts (per harness) and intrinsics
	name := fn.String()
	if fn.Origin() != nil {
		name = fn.Origin().String()
	}
	if e.hcfg != nil {
		if repl, ok := e.hcfg.Cuts[name]; ok {
			e.CutsUsed[name+" => "+repl.String()] = true
			fn = repl
			env = nil
			name = fn.String()
		}
	}
	if isHarnessFunc(fn) {
		if r, handled := harnessAPI(e, g, fn, args); handled {
			e.deliver(g, instr, r, deferOf)
			return
		}
	}
	if in, ok := intrinsics[name]; ok {
		e.IntrinsicsUsed[name] = true
		r, handled := in(e, g, fn, args)
		if handled {
			if g.top() != nil && g.top().panicv != nil && deferOf == nil {
				return // intrinsic raised a panic
			}
			e.deliver(g, instr, r, deferOf)
			return
		}
	}
	if e.inInit && e.skipInInit(fn) {
		e.deliver(g, instr, e.zeroResults(fn.Signature), deferOf)
		return
	}
	if fn.Blocks == nil {
		if e.inInit {
			e.deliver(g, instr, e.zeroResults(fn.Signature), deferOf)
			return
		}
		e.Unsupported[name]++
		e.unsupported("call of external function %s", name)
	}
	if e.isLogFunc(fn) {
		e.deliver(g, instr, e.zeroResults(fn.Signature), deferOf)
		return
	}
	nf := e.newFrame(fn, args, env)
	nf.callInstr = instr
	nf.deferOf = deferOf
	if len(g.stack) > 400 {
		e.fail(OutBound, "call depth > 400 at %s", fn)
	}
	g.stack = append(g.stack, nf)
}

func (e *Exec) zeroResults(sig *types.Signature) Value {
	switch sig.Results().Len() {
	case 0:
		return nil
	case 1:
		return e.zero(sig.Results().At(0).Type())
	}
	return e.zero(sig.Results())
}

func (e *Exec) skipInInit(fn *ssa.Function) bool {
	if fn.Pkg == nil {
		return false
	}
	if fn.Name() == "init" && !e.ld.isRepoPkg(fn.Pkg.Pkg.Path()) {
		return true
	}
	if fn.Name() == "init" && e.ld.isRepoPkg(fn.Pkg.Pkg.Path()) {
		// nested repo package init: run once
		if e.initDone[fn.Pkg] {
			return true
		}
		e.initDone[fn.Pkg] = true
		for _, m := range fn.Pkg.Members {
			if gl, ok := m.(*ssa.Global); ok {
				if _, ok := e.globals[gl]; !ok {
					p := new(Value)
					*p = e.zero(gl.Type().(*types.Pointer).Elem())
					e.globals[gl] = p
				}
			}
		}
		return false
	}
	n := fn.Name()
	if strings.HasPrefix(n, "file_") && strings.HasSuffix(n, "_init") {
		return true
	}
	if !e.ld.isRepoPkg(fn.Pkg.Pkg.Path()) {
		// foreign function called from package-level initialisers: only intrinsics run
		return true
	}
	return false
}

func (e *Exec) isLogFunc(fn *ssa.Function) bool {
	if fn.Pkg == nil {
		return false
	}
	p := fn.Pkg.Pkg.Path()
	if p == "github.com/containerd/nri/pkg/log" || p == "github.com/sirupsen/logrus" || p == "github.com/containerd/log" {
		return true
	}
	return false
}

// deliver hands the result of a completed call to the waiting instruction.
func (e *Exec) deliver(g *G, instr ssa.Instruction, r Value, deferOf *Frame) {
	if deferOf != nil {
		return // result of deferred call is discarded; caller frame continues
	}
	fr := g.top()
	if fr == nil {
		return
	}
	switch in := instr.(type) {
	case *ssa.Call:
		fr.env[in] = r
		fr.pc++
	case *ssa.Go, *ssa.Defer:
		// not reached for these
	case nil:
	default:
		_ = in
	}
}

// callSync runs fn to completion on goroutine g (nested run loop, no scheduling).
func (e *Exec) callSync(g *G, fn Value, args []Value) Value {
	var f *ssa.Function
	var env []Value
	switch x := fn.(type) {
	case *ssa.Function:
		f = x
	case *Closure:
		f, env = x.Fn, x.Env
	default:
		panic("callSync: not a function")
	}
	name := f.String()
	if in, ok := intrinsics[name]; ok {
		if r, handled := in(e, g, f, args); handled {
			return r
		}
	}
	nf := e.newFrame(f, args, env)
	nf.syncBase = true
	g.stack = append(g.stack, nf)
	base := len(g.stack)
	for {
		if len(g.stack) < base {
			break
		}
		if nf.syncDone {
			break
		}
		e.stepG(g, true)
	}
	return nf.result
}

// ---------- panics ----------

func (e *Exec) raise(g *G, p *PanicVal) {
	fr := g.top()
	if fr == nil {
		g.crashed = p
		g.done = true
		return
	}
	if p.Pos == token.NoPos && fr.block != nil && fr.pc < len(fr.block.Instrs) {
		p.Pos = fr.block.Instrs[fr.pc].Pos()
	}
	fr.panicv = p
}

func (e *Exec) runtimePanic(g *G, msg string) {
	e.raise(g, &PanicVal{Runtime: msg})
}

// unwindStep advances panic unwinding of the top frame by one action.
func (e *Exec) unwindStep(g *G) {
	fr := g.top()
	if n := len(fr.defers); n > 0 {
		d := fr.defers[n-1]
		fr.defers = fr.defers[:n-1]
		e.callValue(g, d.fn, d.args, d.inst, fr)
		return
	}
	// no more defers
	p := fr.panicv
	if fr.recovered {
		panic("unwindStep on recovered frame")
	}
	g.stack = g.stack[:len(g.stack)-1]
	if fr.syncBase {
		fr.syncDone = true
	}
	caller := g.top()
	if caller == nil {
		g.crashed = p
		g.done = true
		return
	}
	// if fr was a deferred call of caller, the new panic replaces caller's
	caller.panicv = p
	caller.recovered = false
}

// finishFrame pops a normally completed frame and delivers its result.
func (e *Exec) finishFrame(g *G, fr *Frame) {
	g.stack = g.stack[:len(g.stack)-1]
	if fr.syncBase {
		fr.syncDone = true
		return
	}
	if fr.deferOf != nil {
		return // caller continues its RunDefers / unwinding
	}
	if len(g.stack) == 0 {
		g.done = true
		return
	}
	e.deliver(g, fr.callInstr, fr.result, nil)
}

// ---------- the step function ----------

// stepG executes one instruction (or one unwinding action) of goroutine g.
// nested=true forbids parking at visible operations.
func (e *Exec) stepG(g *G, nested bool) {
	fr := g.top()
	if fr == nil {
		g.done = true
		return
	}
	e.steps++
	e.Instrs++
	if e.steps&4095 == 0 {
		if atomic.LoadInt32(&memExceeded) != 0 {
			e.fail(OutBound, "memory budget exceeded")
		}
		if !e.deadline.IsZero() && time.Now().After(e.deadline.Add(20*time.Second)) {
			e.fail(OutBound, "time budget exhausted inside a path")
		}
	}
	if e.steps > e.maxSteps {
		e.fail(OutBound, "step bound %d exceeded in %s", e.maxSteps, fr.fn)
	}
	if fr.panicv != nil {
		e.unwindStep(g)
		return
	}
	if fr.recovered && !fr.runDefersActive {
		// a deferred call recovered the panic: run remaining defers, then resume at Recover block
		if n := len(fr.defers); n > 0 {
			d := fr.defers[n-1]
			fr.defers = fr.defers[:n-1]
			e.callValue(g, d.fn, d.args, d.inst, fr)
			return
		}
		fr.recovered = false
		if fr.fn.Recover != nil {
			fr.prev = fr.block
			fr.block = fr.fn.Recover
			fr.pc = 0
			return
		}
		fr.result = e.zeroResults(fr.fn.Signature)
		e.finishFrame(g, fr)
		return
	}
	instr := fr.block.Instrs[fr.pc]
	if e.verbose >= 3 {
		fmt.Fprintf(os.Stderr, "g%d %s: %s\n", g.id, fr.fn.Name(), instrString(instr))
	}
	e.exec(g, fr, instr, nested)
}

func instrString(i ssa.Instruction) string {
	if v, ok := i.(ssa.Value); ok {
		return v.Name() + " = " + i.String()
	}
	return i.String()
}

func (e *Exec) jump(fr *Frame, b *ssa.BasicBlock) {
	fr.prev = fr.block
	fr.block = b
	fr.pc = 0
	e.Blocks++
	// phis are evaluated together
	var vals []Value
	n := 0
	for _, in := range b.Instrs {
		phi, ok := in.(*ssa.Phi)
		if !ok {
			break
		}
		idx := -1
		for i, p := range b.Preds {
			if p == fr.prev {
				idx = i
				break
			}
		}
		vals = append(vals, e.get(fr, phi.Edges[idx]))
		n++
	}
	for i := 0; i < n; i++ {
		fr.env[b.Instrs[i].(*ssa.Phi)] = vals[i]
	}
	fr.pc = n
}

func (e *Exec) exec(g *G, fr *Frame, instr ssa.Instruction, nested bool) {
	tt := e.tt
	switch in := instr.(type) {
	case *ssa.DebugRef:
		fr.pc++
	case *ssa.UnOp:
		if in.Op == token.ARROW {
			e.execRecv(g, fr, in, nested)
			return
		}
		r, ok := e.unop(g, in, e.get(fr, in.X))
		if !ok {
			return
		}
		fr.env[in] = r
		fr.pc++
	case *ssa.BinOp:
		r, ok := e.binop(g, in.Op, in.X.Type(), e.get(fr, in.X), e.get(fr, in.Y))
		if !ok {
			return
		}
		fr.env[in] = r
		fr.pc++
	case *ssa.Call:
		e.execCall(g, fr, in, in.Common(), nested)
	case *ssa.ChangeInterface:
		fr.env[in] = e.get(fr, in.X)
		fr.pc++
	case *ssa.ChangeType:
		fr.env[in] = e.get(fr, in.X)
		fr.pc++
	case *ssa.Convert:
		fr.env[in] = e.convert(g, in.X.Type(), in.Type(), e.get(fr, in.X))
		fr.pc++
	case *ssa.MultiConvert:
		fr.env[in] = e.convert(g, in.X.Type(), in.Type(), e.get(fr, in.X))
		fr.pc++
	case *ssa.SliceToArrayPointer:
		e.unsupported("SliceToArrayPointer")
	case *ssa.MakeInterface:
		fr.env[in] = Iface{T: in.X.Type(), V: e.get(fr, in.X)}
		fr.pc++
	case *ssa.Extract:
		tu := e.get(fr, in.Tuple).(Tuple)
		fr.env[in] = tu[in.Index]
		fr.pc++
	case *ssa.Slice:
		r, ok := e.sliceOp(g, in, fr)
		if !ok {
			return
		}
		fr.env[in] = r
		fr.pc++
	case *ssa.Return:
		switch len(in.Results) {
		case 0:
			fr.result = nil
		case 1:
			fr.result = e.get(fr, in.Results[0])
		default:
			tu := make(Tuple, len(in.Results))
			for i, r := range in.Results {
				tu[i] = e.get(fr, r)
			}
			fr.result = tu
		}
		e.finishFrame(g, fr)
	case *ssa.RunDefers:
		if n := len(fr.defers); n > 0 {
			fr.runDefersActive = true
			d := fr.defers[n-1]
			fr.defers = fr.defers[:n-1]
			e.callValue(g, d.fn, d.args, d.inst, fr)
			return
		}
		fr.runDefersActive = false
		fr.pc++
	case *ssa.Panic:
		e.raise(g, &PanicVal{V: e.get(fr, in.X), Pos: in.Pos()})
	case *ssa.Send:
		e.execSend(g, fr, in, nested)
	case *ssa.Store:
		if bp, ok := e.get(fr, in.Addr).(*BytePtr); ok {
			e.memStore(bp.Mem, bp.Idx, e.get(fr, in.Val).(*Term))
			fr.pc++
			return
		}
		addr := e.get(fr, in.Addr).(Ptr)
		if addr == nil {
			e.runtimePanic(g, "nil pointer dereference (store)")
			return
		}
		storeInto(addr, e.get(fr, in.Val))
		fr.pc++
	case *ssa.If:
		c := e.get(fr, in.Cond).(*Term)
		if e.branch(c) {
			e.jump(fr, fr.block.Succs[0])
		} else {
			e.jump(fr, fr.block.Succs[1])
		}
	case *ssa.Jump:
		e.jump(fr, fr.block.Succs[0])
	case *ssa.Defer:
		fn, args := e.prepareCall(g, fr, in.Common())
		if fn == nil {
			return
		}
		fr.defers = append(fr.defers, &deferred{fn: fn, args: args, inst: in})
		fr.pc++
	case *ssa.Go:
		e.execGo(g, fr, in)
	case *ssa.MakeChan:
		sz := e.get(fr, in.Size).(*Term)
		n := int(e.concretize(sz, 8, "chan size"))
		ch := &ChanObj{ID: e.newID(), Cap: n, ET: in.Type().Underlying().(*types.Chan).Elem()}
		fr.env[in] = ch
		fr.pc++
	case *ssa.Alloc:
		var p Ptr
		t := in.Type().(*types.Pointer).Elem()
		if in.Heap {
			p = new(Value)
			*p = e.zero(t)
			fr.env[in] = p
		} else {
			p = fr.env[in].(Ptr)
			*p = e.zero(t)
		}
		fr.pc++
	case *ssa.MakeSlice:
		ln := e.get(fr, in.Len).(*Term)
		cp := e.get(fr, in.Cap).(*Term)
		et := in.Type().Underlying().(*types.Slice).Elem()
		if isByteSlice(in.Type()) && e.hcfg != nil && e.hcfg.SymBytes {
			fr.env[in] = e.makeSymBytes(ln, cp)
			fr.pc++
			return
		}
		l := int(e.concretize(ln, 24, "make len"))
		c := int(e.concretize(cp, 24, "make cap"))
		if l < 0 || c < l || c > 1<<20 {
			e.runtimePanic(g, "makeslice: len out of range")
			return
		}
		s := make(Slice, l, c)
		full := s[:c]
		z := e.zero(et)
		for i := range full {
			full[i] = copyVal(z)
		}
		fr.env[in] = s
		fr.pc++
	case *ssa.MakeMap:
		mt := in.Type().Underlying().(*types.Map)
		fr.env[in] = &MapObj{KT: mt.Key(), VT: mt.Elem()}
		fr.pc++
	case *ssa.Range:
		fr.env[in] = e.rangeIter(e.get(fr, in.X), in)
		fr.pc++
	case *ssa.Next:
		fr.env[in] = e.iterNext(g, e.get(fr, in.Iter), in)
		fr.pc++
	case *ssa.FieldAddr:
		p := e.get(fr, in.X).(Ptr)
		if p == nil {
			e.runtimePanic(g, "nil pointer dereference (field "+in.X.Type().(*types.Pointer).Elem().Underlying().(*types.Struct).Field(in.Field).Name()+")")
			return
		}
		fr.env[in] = Ptr(&(*p).(Struct)[in.Field])
		fr.pc++
	case *ssa.Field:
		fr.env[in] = copyVal(e.get(fr, in.X).(Struct)[in.Field])
		fr.pc++
	case *ssa.IndexAddr:
		r, ok := e.indexAddr(g, fr, in)
		if !ok {
			return
		}
		fr.env[in] = r
		fr.pc++
	case *ssa.Index:
		r, ok := e.indexOp(g, fr, in)
		if !ok {
			return
		}
		fr.env[in] = r
		fr.pc++
	case *ssa.Lookup:
		r, ok := e.lookupOp(g, fr, in)
		if !ok {
			return
		}
		fr.env[in] = r
		fr.pc++
	case *ssa.MapUpdate:
		m := e.get(fr, in.Map).(*MapObj)
		if m == nil {
			e.runtimePanic(g, "assignment to entry in nil map")
			return
		}
		e.mapUpdate(m, e.get(fr, in.Key), e.get(fr, in.Value))
		fr.pc++
	case *ssa.TypeAssert:
		r, ok := e.typeAssert(g, in, e.get(fr, in.X).(Iface))
		if !ok {
			return
		}
		fr.env[in] = r
		fr.pc++
	case *ssa.MakeClosure:
		var bindings []Value
		for _, b := range in.Bindings {
			bindings = append(bindings, e.get(fr, b))
		}
		fr.env[in] = &Closure{Fn: in.Fn.(*ssa.Function), Env: bindings}
		fr.pc++
	case *ssa.Phi:
		panic("phi reached in exec")
	case *ssa.Select:
		e.execSelect(g, fr, in, nested)
	default:
		_ = tt
		e.unsupported("instruction %T", instr)
	}
}

// prepareCall evaluates the callee and arguments of a call.
func (e *Exec) prepareCall(g *G, fr *Frame, call *ssa.CallCommon) (Value, []Value) {
	v := e.get(fr, call.Value)
	var args []Value
	var fn Value
	if call.Method == nil {
		fn = v
	} else {
		recv := v.(Iface)
		if recv.T == nil && isLogIface(call.Value.Type()) {
			// the repo's logger interface is never initialised under symgo: logging is a no-op
			return &logNoop{}, nil
		}
		if recv.T == nil {
			e.runtimePanic(g, "method call on nil interface: "+call.Method.Name())
			return nil, nil
		}
		if ev, ok := recv.V.(*ErrVal); ok {
			// methods of abstract errors are handled by the pseudo function errMethod
			fn = &errMethod{name: call.Method.Name(), ev: ev}
			args = append(args, recv.V)
		} else if gobj, ok := recv.V.(*GoObj); ok {
			fn = &objMethod{name: call.Method.Name(), obj: gobj}
			args = append(args, recv.V)
		} else {
			f := e.lookupMethod(recv.T, call.Method)
			if f == nil {
				e.unsupported("method %s not found on %v", call.Method.Name(), recv.T)
			}
			fn = f
			args = append(args, recv.V)
		}
	}
	for _, a := range call.Args {
		args = append(args, copyVal(e.get(fr, a)))
	}
	return fn, args
}

type logNoop struct{}

func isLogIface(t types.Type) bool {
	n, ok := t.(*types.Named)
	if !ok || n.Obj().Pkg() == nil {
		return false
	}
	p := n.Obj().Pkg().Path()
	return p == "github.com/containerd/nri/pkg/log" || p == "github.com/sirupsen/logrus"
}

type errMethod struct {
	name string
	ev   *ErrVal
}

type objMethod struct {
	name string
	obj  *GoObj
}

func (e *Exec) lookupMethod(t types.Type, m *types.Func) *ssa.Function {
	ms := e.prog.MethodSets.MethodSet(t)
	sel := ms.Lookup(m.Pkg(), m.Name())
	if sel == nil {
		return nil
	}
	return e.prog.MethodValue(sel)
}

func (e *Exec) execCall(g *G, fr *Frame, in *ssa.Call, call *ssa.CallCommon, nested bool) {
	// visible operations (sync intrinsics) park the goroutine first
	if vo := e.visibleCall(g, fr, call); vo != nil {
		if !e.grantOrPark(g, vo, nested) {
			return
		}
	}
	// calls through function variables of logging packages (e.g. containerd/log.G) are no-ops
	if !call.IsInvoke() {
		if ld, ok := call.Value.(*ssa.UnOp); ok {
			if gl, ok := ld.X.(*ssa.Global); ok && gl.Pkg != nil {
				switch gl.Pkg.Pkg.Path() {
				case "github.com/containerd/log", "github.com/sirupsen/logrus", "github.com/containerd/nri/pkg/log":
					fr.env[in] = e.zeroResults(call.Signature())
					fr.pc++
					return
				}
			}
		}
	}
	fn, args := e.prepareCall(g, fr, call)
	if fn == nil {
		return
	}
	switch f := fn.(type) {
	case *logNoop:
		fr.env[in] = e.zeroResults(call.Signature())
		fr.pc++
		return
	case *errMethod:
		r := e.callErrMethod(g, f, args)
		fr.env[in] = r
		fr.pc++
		return
	case *objMethod:
		r := e.callObjMethod(g, f, args[1:])
		fr.env[in] = r
		fr.pc++
		return
	}
	e.callValue(g, fn, args, in, nil)
}

func (e *Exec) callErrMethod(g *G, f *errMethod, args []Value) Value {
	switch f.name {
	case "Error":
		if f.ev.Msg != nil {
			return f.ev.Msg
		}
		return e.freshString("errmsg")
	case "Unwrap":
		if len(f.ev.Wraps) > 0 {
			return f.ev.Wraps[0]
		}
		return Iface{}
	}
	e.unsupported("method %s on abstract error", f.name)
	return nil
}

func (e *Exec) freshString(prefix string) *Term {
	name := e.tt.FreshName(prefix)
	return e.tt.Var(name, SStr)
}

func (e *Exec) addPC(l *Term) {
	e.pc = append(e.pc, l)
	e.pcSet[l] = true
	if l.Op == "=" && len(l.Args) == 2 {
		x, t := l.Args[0], l.Args[1]
		if !x.IsVar() {
			x, t = t, x
		}
		if x.IsVar() {
			if _, dup := e.eqSubst[x]; !dup {
				var vs []*Term
				t.Vars(map[*Term]bool{}, &vs)
				occurs := false
				for _, v := range vs {
					if v == x {
						occurs = true
					}
				}
				if !occurs {
					// keep the substitution idempotent: rewrite t with what is already known
					e.eqSubst[x] = e.tt.Subst(t, e.eqSubst, map[*Term]*Term{}, nil)
				}
			}
		}
	}
}
