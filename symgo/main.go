package main

import (
	"encoding/json"
	"flag"
	"fmt"
	"os"
	"path/filepath"
	"regexp"
	"runtime"
	"runtime/debug"
	"sort"
	"strconv"
	"strings"
	"sync"
	"sync/atomic"
	"time"
)

var verifDir = "/verif"

var memExceeded int32

func main() {
	debug.SetGCPercent(400)
	debug.SetMemoryLimit(40 << 30)
	go func() {
		// memory watchdog: an exploding encoding must end as INCONCLUSIVE, not as an OOM kill
		var ms runtime.MemStats
		for {
			time.Sleep(2 * time.Second)
			runtime.ReadMemStats(&ms)
			if ms.HeapAlloc > 24<<30 {
				// stop exploring; what was found so far is still reported (as inconclusive at best)
				atomic.StoreInt32(&memExceeded, 1)
			}
			if ms.HeapAlloc > 44<<30 {
				fmt.Println("INCONCLUSIVE memory budget exceeded by the encoding")
				os.Exit(2)
			}
		}
	}()
	if len(os.Args) < 2 {
		fmt.Fprintln(os.Stderr, "usage: symgo run|list|replay ...")
		os.Exit(2)
	}
	switch os.Args[1] {
	case "run":
		os.Exit(cmdRun(os.Args[2:]))
	case "list":
		os.Exit(cmdList(os.Args[2:]))
	case "replay":
		os.Exit(cmdReplay(os.Args[2:]))
	}
	fmt.Fprintln(os.Stderr, "unknown command")
	os.Exit(2)
}

type job struct {
	h    *HarnessCfg
	inst int
}

// propertyModules finds, textually, which harness dirs mention the property.
func harnessDirsFor(prop string) (mainDirs []string, pluginMods map[string][]string) {
	pluginMods = map[string][]string{}
	root := filepath.Join(verifDir, "harness")
	re := regexp.MustCompile(`(?m)^//verif:property\s+` + regexp.QuoteMeta(prop) + `\s*$`)
	seen := map[string]bool{}
	filepath.Walk(root, func(p string, info os.FileInfo, err error) error {
		if err != nil || info.IsDir() || !strings.HasSuffix(p, ".go") {
			return nil
		}
		src, _ := os.ReadFile(p)
		if prop != "" && !re.Match(src) {
			return nil
		}
		rel, _ := filepath.Rel(root, filepath.Dir(p))
		if rel == "common" || seen[rel] {
			return nil
		}
		seen[rel] = true
		if strings.HasPrefix(rel, "plugins/device-injector") {
			pluginMods["plugins/device-injector"] = append(pluginMods["plugins/device-injector"], rel)
		} else if strings.HasPrefix(rel, "plugins/ulimit-adjuster") {
			pluginMods["plugins/ulimit-adjuster"] = append(pluginMods["plugins/ulimit-adjuster"], rel)
		} else {
			mainDirs = append(mainDirs, rel)
		}
		return nil
	})
	sort.Strings(mainDirs)
	return
}

func cmdList(args []string) int {
	fs := flag.NewFlagSet("list", flag.ExitOnError)
	repo := fs.String("repo", "/repo", "")
	fs.Parse(args)
	dirs, mods := harnessDirsFor("")
	lds := loadAll(*repo, dirs, mods)
	for _, ld := range lds {
		for _, n := range ld.order {
			h := ld.harnesses[n]
			fmt.Printf("%-40s %-4s inst=%d tier=%s\n", h.Name, h.Property, h.Instances, h.Tier)
		}
	}
	return 0
}

func loadAll(repo string, dirs []string, mods map[string][]string) []*Loaded {
	var lds []*Loaded
	if len(dirs) > 0 {
		ld, err := Load(verifDir, repo, "", dirs)
		if err != nil {
			fmt.Fprintln(os.Stderr, "load:", err)
			fmt.Println("INCONCLUSIVE load failed:", err)
			os.Exit(2)
		}
		lds = append(lds, ld)
	}
	var mk []string
	for m := range mods {
		mk = append(mk, m)
	}
	sort.Strings(mk)
	for _, m := range mk {
		ld, err := Load(verifDir, repo, m, mods[m])
		if err != nil {
			fmt.Fprintln(os.Stderr, "load:", err)
			fmt.Println("INCONCLUSIVE load failed:", err)
			os.Exit(2)
		}
		lds = append(lds, ld)
	}
	return lds
}

func cmdRun(args []string) int {
	fs := flag.NewFlagSet("run", flag.ExitOnError)
	prop := fs.String("property", "", "property id")
	tier := fs.String("tier", "quick", "quick|thorough")
	repo := fs.String("repo", "/repo", "")
	only := fs.String("harness", "", "run only this harness (substring)")
	onlyInst := fs.Int("instance", -1, "run only this instance")
	verbose := fs.Int("v", 0, "verbosity")
	workers := fs.Int("j", 0, "workers (default: cores)")
	solverKind := fs.String("solver", "cvc5", "cvc5|z3|z3-new")
	qtimeout := fs.Int("qtimeout", 0, "per-query timeout ms")
	noEvidence := fs.Bool("no-evidence", false, "do not write evidence file")
	noReplay := fs.Bool("no-replay", false, "skip native replay of counterexamples")
	budget := fs.Duration("budget", 0, "wall-clock budget for exploration")
	fs.Parse(args)
	if *prop == "" {
		fmt.Fprintln(os.Stderr, "--property required")
		return 2
	}
	t0 := time.Now()
	seed := 0
	if s := os.Getenv("VERIF_SEED"); s != "" {
		seed, _ = strconv.Atoi(s)
	}
	if *qtimeout == 0 {
		*qtimeout = 30000
		if *tier == "thorough" {
			*qtimeout = 120000
		}
	}
	if *workers == 0 {
		*workers = runtime.NumCPU()
	}
	dirs, mods := harnessDirsFor(*prop)
	if len(dirs) == 0 && len(mods) == 0 {
		fmt.Println("INCONCLUSIVE no harness for property", *prop)
		return 2
	}
	lds := loadAll(*repo, dirs, mods)
	loadT := time.Since(t0)

	var jobs []job
	ldOf := map[*HarnessCfg]*Loaded{}
	for _, ld := range lds {
		for _, n := range ld.order {
			h := ld.harnesses[n]
			if h.Property != *prop {
				continue
			}
			if *only != "" && !strings.Contains(h.Name, *only) {
				continue
			}
			if h.Tier != "" && h.Tier != *tier {
				continue
			}
			ldOf[h] = ld
			insts := []int{}
			if *tier == "thorough" && len(h.ThoroughInstances) > 0 {
				insts = h.ThoroughInstances
			} else if *tier == "quick" && len(h.QuickInstances) > 0 {
				insts = h.QuickInstances
			} else {
				for i := 0; i < h.Instances; i++ {
					insts = append(insts, i)
				}
			}
			for _, i := range insts {
				if *onlyInst >= 0 && i != *onlyInst {
					continue
				}
				jobs = append(jobs, job{h, i})
			}
		}
	}
	if len(jobs) == 0 {
		fmt.Println("INCONCLUSIVE no harness instances selected for", *prop)
		return 2
	}
	// deterministic shuffle by seed (order only; exploration is complete)
	if seed != 0 {
		rot := seed % len(jobs)
		if rot < 0 {
			rot = -rot
		}
		jobs = append(jobs[rot:], jobs[:rot]...)
	}
	var deadline time.Time
	if *budget > 0 {
		deadline = t0.Add(*budget)
	}

	// work queue with dynamic splitting of the DFS tree
	type work struct {
		ji     int
		prefix []Decision
	}
	var (
		mu      sync.Mutex
		cond    = sync.NewCond(&mu)
		queue   []work
		idle    int
		nw      = *workers
		partial = make([][]*ExploreResult, len(jobs))
	)
	for i := range jobs {
		queue = append(queue, work{ji: i})
	}
	var wg sync.WaitGroup
	for w := 0; w < nw; w++ {
		wg.Add(1)
		go func() {
			defer wg.Done()
			for {
				mu.Lock()
				for len(queue) == 0 {
					idle++
					if idle == nw {
						cond.Broadcast()
						mu.Unlock()
						return
					}
					cond.Wait()
					if idle == nw {
						mu.Unlock()
						return
					}
					idle--
				}
				wk := queue[0]
				queue = queue[1:]
				mu.Unlock()
				j := jobs[wk.ji]
				qt := *qtimeout
				if j.h.QTimeout > qt {
					qt = j.h.QTimeout
				}
				e, err := NewExec(ldOf[j.h], *solverKind, qt)
				if err != nil {
					mu.Lock()
					partial[wk.ji] = append(partial[wk.ji], &ExploreResult{Harness: j.h.Name, Instance: j.inst, Inconclusive: []string{"solver start: " + err.Error()}})
					mu.Unlock()
					continue
				}
				e.verbose = *verbose
				wantWork := func() bool {
					mu.Lock()
					defer mu.Unlock()
					return idle > 0 && len(queue) == 0
				}
				donate := func(p []Decision) {
					mu.Lock()
					queue = append(queue, work{ji: wk.ji, prefix: p})
					cond.Signal()
					mu.Unlock()
				}
				r := e.Explore(j.h, j.inst, deadline, wk.prefix, wantWork, donate)
				e.solver.Close()
				mu.Lock()
				partial[wk.ji] = append(partial[wk.ji], r)
				mu.Unlock()
				if *verbose >= 1 {
					fmt.Fprintf(os.Stderr, "done %s#%d prefix=%d paths=%d %v queries=%d wall=%v\n", j.h.Name, j.inst, len(wk.prefix), r.Paths, r.ByKind, r.Stats.Queries, r.Wall.Round(time.Millisecond))
				}
			}
		}()
	}
	wg.Wait()
	results := make([]*ExploreResult, len(jobs))
	for i := range jobs {
		results[i] = mergeResults(partial[i])
	}

	return report(*prop, *tier, seed, jobs, results, lds, t0, loadT, *noEvidence, *noReplay, *repo, *solverKind)
}

type evidence struct {
	PropertyID  string                 `json:"property_id"`
	Tier        string                 `json:"tier"`
	Seed        int                    `json:"seed"`
	Level       string                 `json:"level"`
	Coverage    map[string]interface{} `json:"coverage"`
	Assumptions []string               `json:"assumptions"`
	WallS       float64                `json:"wall_s"`
	Violations  int                    `json:"violations"`
}

func report(prop, tier string, seed int, jobs []job, results []*ExploreResult, lds []*Loaded, t0 time.Time, loadT time.Duration,
	noEvidence, noReplay bool, repo, solverKind string) int {
	known := loadKnownFindings(prop)
	totalPaths, totalInstr, totalBlocks := 0, int64(0), int64(0)
	byKind := map[string]int{}
	var stats SolverStats
	covered := map[string]int{}
	funcs := map[string]int{}
	var inconcl []string
	var vios []*Violation
	var samples []interface{}
	intr := map[string]bool{}
	cuts := map[string]bool{}
	perInst := []map[string]interface{}{}
	missingCover := []string{}
	for i, r := range results {
		j := jobs[i]
		totalPaths += r.Paths
		totalInstr += r.Instrs
		totalBlocks += r.Blocks
		for k, v := range r.ByKind {
			byKind[k] += v
		}
		stats.Queries += r.Stats.Queries
		stats.Sat += r.Stats.Sat
		stats.Unsat += r.Stats.Unsat
		stats.Unknown += r.Stats.Unknown
		stats.Time += r.Stats.Time
		for k, v := range r.Covered {
			covered[j.h.Name+":"+k] += v
		}
		for k, v := range r.Funcs {
			funcs[k] = v
		}
		for _, s := range r.Inconclusive {
			inconcl = append(inconcl, fmt.Sprintf("%s#%d: %s", j.h.Name, j.inst, s))
		}
		vios = append(vios, r.Violations...)
		for _, s := range r.Samples {
			if len(samples) < 12 {
				samples = append(samples, s)
			}
		}
		for _, k := range r.Intrinsics {
			intr[k] = true
		}
		for _, k := range r.Cuts {
			cuts[k] = true
		}
		perInst = append(perInst, map[string]interface{}{"harness": j.h.Name, "instance": j.inst, "paths": r.Paths,
			"outcomes": r.ByKind, "queries": r.Stats.Queries, "wall_s": r.Wall.Seconds(), "max_decisions": r.MaxTrail})
	}
	// expected covers (vacuity): per harness, over all of its instances
	hs := map[*HarnessCfg]bool{}
	for _, j := range jobs {
		hs[j.h] = true
	}
	for h := range hs {
		for _, c := range h.ExpectCover {
			if covered[h.Name+":"+c] == 0 {
				missingCover = append(missingCover, h.Name+":"+c)
			}
		}
	}
	sort.Strings(missingCover)

	// twins: harnesses marked twin must produce their violation (reachability witnesses)
	twinOK := map[string]bool{}
	var realVios []*Violation
	for _, v := range vios {
		hname := strings.SplitN(v.Key, ":", 2)[0]
		isTwin := false
		for h := range hs {
			if h.Name == hname && h.Twin {
				isTwin = true
			}
		}
		if isTwin {
			twinOK[hname] = true
			continue
		}
		realVios = append(realVios, v)
	}
	for h := range hs {
		if h.Twin && !twinOK[h.Name] {
			inconcl = append(inconcl, "twin "+h.Name+": final assert(false) not reached (vacuous harness)")
		}
	}

	// native sampling of harnesses that ask for it (validates trusted parts against the real build)
	sweepRuns := 0
	for h := range hs {
		if h.Sweep > 0 && !noReplay {
			var ld *Loaded
			for _, l := range lds {
				if _, ok := l.harnesses[h.Name]; ok {
					ld = l
				}
			}
			n, ok, out := nativeSweep(ld, h, h.Instances, h.Sweep, seed+1)
			sweepRuns += n
			if !ok {
				inconcl = append(inconcl, "native sweep of "+h.Name+" failed: "+firstLine(lastLines(out, 6)))
				os.WriteFile(filepath.Join(verifDir, "replays", prop+"-sweep.log"), []byte(out), 0o644)
			}
		}
	}
	// classify violations: known findings vs new
	exit := 0
	nNew := 0
	printedKnown := map[string]bool{}
	replays := 0
	os.MkdirAll(filepath.Join(verifDir, "replays"), 0o755)
	seenKey := map[string]bool{}
	for _, v := range realVios {
		if seenKey[v.Key] {
			continue
		}
		seenKey[v.Key] = true
		if kf, ok := known[v.Key]; ok {
			if !printedKnown[v.Key] {
				printedKnown[v.Key] = true
				fmt.Printf("KNOWN-FINDING: property=%s %s [%s]\n", prop, kf, v.Key)
			}
			continue
		}
		// new violation: write replay file, replay natively
		path := filepath.Join(verifDir, "replays", fmt.Sprintf("%s-%d.json", prop, nNew))
		writeReplay(path, prop, v)
		confirmed := "unconfirmed"
		if strings.HasPrefix(v.Label, "ghost-") || v.Kind == "deadlock" {
			// obligations over engine ghost state (lock ownership, schedules) have no native counterpart
			confirmed = "engine-level obligation, not natively replayable"
		} else if !noReplay {
			ok, out := nativeReplay(repo, lds, path, v)
			replays++
			if ok {
				confirmed = "confirmed"
			} else if out == "skip" {
				confirmed = "not-replayable"
			}
		} else {
			confirmed = "replay-skipped"
		}
		nNew++
		if confirmed == "unconfirmed" {
			inconcl = append(inconcl, "UNCONFIRMED model for "+v.Key+" (native replay did not reproduce): "+v.Msg)
			fmt.Printf("UNCONFIRMED property=%s key=%s replay=%s\n", prop, v.Key, path)
			continue
		}
		fmt.Printf("VIOLATION property=%s replay=%s key=%s (%s; %s)\n", prop, path, v.Key, v.Msg, confirmed)
		exit = 1
	}
	if exit == 0 && (len(inconcl) > 0 || len(missingCover) > 0 || stats.Unknown > 0) {
		exit = 2
		for i, s := range inconcl {
			if i < 10 {
				fmt.Println("INCONCLUSIVE", s)
			}
		}
		for _, c := range missingCover {
			fmt.Println("INCONCLUSIVE witness not reached:", c)
		}
	}

	// evidence
	var fl []string
	for f, n := range funcs {
		if strings.Contains(f, "zz_verif") {
			continue
		}
		fl = append(fl, fmt.Sprintf("%s (%d instrs)", f, n))
	}
	sort.Strings(fl)
	var il, cl []string
	for k := range intr {
		il = append(il, k)
	}
	for k := range cuts {
		cl = append(cl, k)
	}
	sort.Strings(il)
	sort.Strings(cl)
	var hdocs []map[string]interface{}
	var hnames []string
	for h := range hs {
		hnames = append(hnames, h.Name)
	}
	sort.Strings(hnames)
	for _, n := range hnames {
		for h := range hs {
			if h.Name == n {
				hdocs = append(hdocs, map[string]interface{}{"harness": h.Name, "what": h.Doc, "instances": h.Instances,
					"preemption_bound": h.Preempt, "map_range_bound": h.MaxRange, "expected_witnesses": h.ExpectCover})
			}
		}
	}
	if len(samples) == 0 {
		samples = append(samples, map[string]string{"note": "no symbolic inputs on completed paths"})
	}
	var vs []map[string]interface{}
	for _, v := range realVios {
		if len(vs) < 20 {
			vs = append(vs, map[string]interface{}{"key": v.Key, "msg": v.Msg, "nondet": v.Nondets, "known": known[v.Key] != ""})
		}
	}
	ev := evidence{PropertyID: prop, Tier: tier, Seed: seed, Level: "model_checking", WallS: time.Since(t0).Seconds(), Violations: nNew,
		Coverage: map[string]interface{}{
			"states":                        totalBlocks,
			"transitions":                   totalInstr,
			"traces_validated_against_impl": replays + sweepRuns,
			"native_sweep_runs":             sweepRuns,
			"samples":                       samples,
			"evaluations":                   totalPaths,
			"distinct_nontrivial":           byKind["done"] + byKind["panic"] + byKind["deadlock"],
			"rule":                          "each evaluation is one complete symbolic path (distinct by construction: decision trails differ) through the real go/ssa code; non-trivial = path reached the end of the harness, a panic or a deadlock (not pruned as infeasible / assume-false)",
			"exhaustive":                    exit != 2,
			"explanation":                   "bounded symbolic execution of the real functions (go/ssa rebuilt from /repo's working tree on this run); every assertion decided by " + solverKind + " over all values within the stated bounds",
			"functions_encoded":             fl,
			"instances":                     perInst,
			"harnesses":                     hdocs,
			"paths":                         byKind,
			"queries":                       map[string]int{"total": stats.Queries, "sat": stats.Sat, "unsat": stats.Unsat, "unknown": stats.Unknown},
			"solver_time_s":                 stats.Time.Seconds(),
			"load_time_s":                   loadT.Seconds(),
			"solver":                        solverKind,
			"intrinsics":                    il,
			"cuts":                          cl,
			"witnesses":                     covered,
			"witnesses_missing":             missingCover,
			"inconclusive":                  inconcl,
			"violations_detail":             vs,
			"known_findings_matched":        len(printedKnown),
		},
		Assumptions: []string{
			"A-ASCII: symbolic strings range over printable ASCII",
			"A-DRF: context switches only at synchronisation operations",
			"A-LEN: string lengths < 2^62 (length arithmetic kept in Int)",
			"go/ssa translation, symgo instruction semantics and listed intrinsics/cuts are trusted; solver verdicts trusted",
			"bounds per harness as listed under coverage.harnesses and in DESIGN.md section 5",
		},
	}
	if !noEvidence {
		os.MkdirAll(filepath.Join(verifDir, "evidence"), 0o755)
		b, _ := json.MarshalIndent(ev, "", " ")
		os.WriteFile(filepath.Join(verifDir, "evidence", prop+".json"), b, 0o644)
	}
	fmt.Printf("SUMMARY property=%s tier=%s exit=%d harness-instances=%d paths=%d %v queries=%d (sat %d unsat %d unknown %d) solver=%.1fs wall=%.1fs known=%d new=%d\n",
		prop, tier, exit, len(jobs), totalPaths, byKind, stats.Queries, stats.Sat, stats.Unsat, stats.Unknown, stats.Time.Seconds(), time.Since(t0).Seconds(), len(printedKnown), nNew)
	return exit
}

// known findings file: lines "known: property=<id> key=<key> <description>"
func loadKnownFindings(prop string) map[string]string {
	m := map[string]string{}
	b, err := os.ReadFile(filepath.Join(verifDir, "known_findings.txt"))
	if err != nil {
		return m
	}
	for _, l := range strings.Split(string(b), "\n") {
		l = strings.TrimSpace(l)
		if !strings.HasPrefix(l, "known:") {
			continue
		}
		f := strings.Fields(l)
		if len(f) < 3 || f[1] != "property="+prop || !strings.HasPrefix(f[2], "key=") {
			continue
		}
		m[strings.TrimPrefix(f[2], "key=")] = strings.Join(f[3:], " ")
	}
	return m
}

type replayFile struct {
	Property string      `json:"property"`
	Harness  string      `json:"harness"`
	Instance int         `json:"instance"`
	Label    string      `json:"label"`
	Kind     string      `json:"kind"`
	Key      string      `json:"key"`
	Msg      string      `json:"msg"`
	Nondet   []NondetRec `json:"nondet"`
	Trail    []int       `json:"trail"`
}

func writeReplay(path, prop string, v *Violation) {
	parts := strings.SplitN(v.Key, ":", 2)
	rf := replayFile{Property: prop, Harness: parts[0], Instance: v.Instance, Label: v.Label, Kind: v.Kind, Key: v.Key, Msg: v.Msg, Nondet: v.Nondets, Trail: v.Trail}
	b, _ := json.MarshalIndent(rf, "", " ")
	os.WriteFile(path, b, 0o644)
}

func mergeResults(rs []*ExploreResult) *ExploreResult {
	if len(rs) == 0 {
		return &ExploreResult{Inconclusive: []string{"no result"}}
	}
	m := &ExploreResult{Harness: rs[0].Harness, Instance: rs[0].Instance, ByKind: map[string]int{}, Covered: map[string]int{}, Funcs: map[string]int{}}
	in, cu := map[string]bool{}, map[string]bool{}
	for _, r := range rs {
		m.Paths += r.Paths
		for k, v := range r.ByKind {
			m.ByKind[k] += v
		}
		for k, v := range r.Covered {
			m.Covered[k] += v
		}
		for k, v := range r.Funcs {
			m.Funcs[k] = v
		}
		m.Violations = append(m.Violations, r.Violations...)
		m.Inconclusive = append(m.Inconclusive, r.Inconclusive...)
		m.Instrs += r.Instrs
		m.Blocks += r.Blocks
		m.Stats.Queries += r.Stats.Queries
		m.Stats.Sat += r.Stats.Sat
		m.Stats.Unsat += r.Stats.Unsat
		m.Stats.Unknown += r.Stats.Unknown
		m.Stats.Time += r.Stats.Time
		if r.Wall > m.Wall {
			m.Wall = r.Wall
		}
		if len(m.Samples) < 4 {
			m.Samples = append(m.Samples, r.Samples...)
		}
		for _, k := range r.Intrinsics {
			in[k] = true
		}
		for _, k := range r.Cuts {
			cu[k] = true
		}
		if r.MaxTrail > m.MaxTrail {
			m.MaxTrail = r.MaxTrail
		}
	}
	for k := range in {
		m.Intrinsics = append(m.Intrinsics, k)
	}
	for k := range cu {
		m.Cuts = append(m.Cuts, k)
	}
	sort.Strings(m.Intrinsics)
	sort.Strings(m.Cuts)
	return m
}

func lastLines(s string, n int) string {
	ls := strings.Split(strings.TrimSpace(s), "\n")
	if len(ls) > n {
		ls = ls[len(ls)-n:]
	}
	return strings.Join(ls, " | ")
}
