package main

import (
	"fmt"
	"go/token"
	"go/types"
	"sync"
	"unicode/utf8"

	"golang.org/x/tools/go/ssa"
)

func (e *Exec) unop(g *G, in *ssa.UnOp, x Value) (Value, bool) {
	tt := e.tt
	switch in.Op {
	case token.MUL: // load
		if bp, ok := x.(*BytePtr); ok {
			return e.memRead(bp.Mem.Arr, bp.Mem.W, bp.Idx), true
		}
		p := x.(Ptr)
		if p == nil {
			e.runtimePanic(g, "nil pointer dereference (load)")
			return nil, false
		}
		return copyVal(*p), true
	case token.NOT:
		return tt.Not(x.(*Term)), true
	case token.SUB:
		t := x.(*Term)
		if t.Sort.K == KFP {
			return tt.FPBin("fp.sub", tt.FP(0), t), true
		}
		return tt.BVNeg(t), true
	case token.XOR:
		return tt.BVNot(x.(*Term)), true
	}
	e.unsupported("unop %v", in.Op)
	return nil, false
}

func basicOf(t types.Type) *types.Basic {
	b, _ := t.Underlying().(*types.Basic)
	return b
}

func (e *Exec) binop(g *G, op token.Token, xt types.Type, x, y Value) (Value, bool) {
	tt := e.tt
	switch op {
	case token.EQL:
		return e.eqValues(x, y), true
	case token.NEQ:
		return tt.Not(e.eqValues(x, y)), true
	}
	a, ok1 := x.(*Term)
	b, ok2 := y.(*Term)
	if !ok1 || !ok2 {
		e.unsupported("binop %v on %T,%T", op, x, y)
	}
	switch a.Sort.K {
	case KStr:
		switch op {
		case token.ADD:
			return tt.Concat(a, b), true
		case token.LSS:
			return tt.StrLt(a, b), true
		case token.LEQ:
			return tt.StrLe(a, b), true
		case token.GTR:
			return tt.StrLt(b, a), true
		case token.GEQ:
			return tt.StrLe(b, a), true
		}
	case KBool:
		switch op {
		case token.AND, token.LAND:
			return tt.And(a, b), true
		case token.OR, token.LOR:
			return tt.Or(a, b), true
		}
	case KFP:
		switch op {
		case token.ADD:
			return tt.FPBin("fp.add", a, b), true
		case token.SUB:
			return tt.FPBin("fp.sub", a, b), true
		case token.MUL:
			return tt.FPBin("fp.mul", a, b), true
		case token.QUO:
			return tt.FPBin("fp.div", a, b), true
		case token.LSS:
			return tt.FPCmp("fp.lt", a, b), true
		case token.LEQ:
			return tt.FPCmp("fp.leq", a, b), true
		case token.GTR:
			return tt.FPCmp("fp.lt", b, a), true
		case token.GEQ:
			return tt.FPCmp("fp.leq", b, a), true
		}
	case KBV:
		bt := basicOf(xt)
		signed := true
		if bt != nil {
			_, signed, _ = intWidth(bt)
		}
		w := a.Sort.W
		switch op {
		case token.ADD:
			return tt.BVBin("bvadd", a, b), true
		case token.SUB:
			return tt.BVBin("bvsub", a, b), true
		case token.MUL:
			return tt.BVBin("bvmul", a, b), true
		case token.QUO, token.REM:
			if e.branch(tt.Eq(b, tt.BV(w, 0))) {
				e.runtimePanic(g, "integer divide by zero")
				return nil, false
			}
			var o string
			switch {
			case op == token.QUO && signed:
				o = "bvsdiv"
			case op == token.QUO:
				o = "bvudiv"
			case signed:
				o = "bvsrem"
			default:
				o = "bvurem"
			}
			return tt.BVBin(o, a, b), true
		case token.AND:
			return tt.BVBin("bvand", a, b), true
		case token.OR:
			return tt.BVBin("bvor", a, b), true
		case token.XOR:
			return tt.BVBin("bvxor", a, b), true
		case token.AND_NOT:
			return tt.BVBin("bvand", a, tt.BVNot(b)), true
		case token.SHL, token.SHR:
			amt := b
			if amt.Sort.W < w {
				amt = tt.ZExt(w, amt)
			} else if amt.Sort.W > w {
				big := tt.BVCmp("bvuge", amt, tt.BV(amt.Sort.W, uint64(w)))
				amt = tt.Ite(big, tt.BV(w, uint64(w)), tt.Extract(w-1, 0, amt))
			}
			if op == token.SHL {
				return tt.BVBin("bvshl", a, amt), true
			}
			if signed {
				return tt.BVBin("bvashr", a, amt), true
			}
			return tt.BVBin("bvlshr", a, amt), true
		case token.LSS:
			if signed {
				return tt.BVCmp("bvslt", a, b), true
			}
			return tt.BVCmp("bvult", a, b), true
		case token.LEQ:
			if signed {
				return tt.BVCmp("bvsle", a, b), true
			}
			return tt.BVCmp("bvule", a, b), true
		case token.GTR:
			if signed {
				return tt.BVCmp("bvslt", b, a), true
			}
			return tt.BVCmp("bvult", b, a), true
		case token.GEQ:
			if signed {
				return tt.BVCmp("bvsle", b, a), true
			}
			return tt.BVCmp("bvule", b, a), true
		}
	}
	e.unsupported("binop %v on sort %v", op, a.Sort)
	return nil, false
}

func (e *Exec) convert(g *G, from, to types.Type, x Value) Value {
	tt := e.tt
	uf, ut := from.Underlying(), to.Underlying()
	// pointer <-> unsafe.Pointer etc.
	switch ut.(type) {
	case *types.Pointer:
		return x
	}
	if bt, ok := ut.(*types.Basic); ok {
		if bt.Kind() == types.UnsafePointer {
			return x
		}
		if bt.Info()&types.IsString != 0 {
			// string(x): from string, []byte, []rune, integer
			switch v := x.(type) {
			case *Term:
				if v.Sort.K == KStr {
					return v
				}
				if v.Sort.K == KBV {
					// string(rune)
					if v.IsConst() {
						return tt.Str(string(rune(sext64(v.U, v.Sort.W))))
					}
					return tt.FromCode(tt.BV2I(v))
				}
			case Slice:
				// []byte or []rune with concrete length
				r := tt.Str("")
				isRune := false
				if st, ok := uf.(*types.Slice); ok {
					if b := basicOf(st.Elem()); b != nil && b.Kind() == types.Int32 {
						isRune = true
					}
				}
				for _, el := range v {
					t := el.(*Term)
					if t.IsConst() {
						if isRune {
							r = tt.Concat(r, tt.Str(string(rune(t.U))))
						} else {
							r = tt.Concat(r, tt.Str(string([]byte{byte(t.U)})))
						}
					} else {
						r = tt.Concat(r, e.byteToStr(t))
					}
				}
				return r
			case *SymBytes:
				e.unsupported("string(symbolic []byte)")
			}
		}
		if w, _, ok := intWidth(bt); ok {
			v := x.(*Term)
			switch v.Sort.K {
			case KBV:
				fb := basicOf(from)
				_, fsigned, _ := intWidth(fb)
				if v.Sort.W == w {
					return v
				}
				if v.Sort.W > w {
					return tt.Extract(w-1, 0, v)
				}
				if fsigned {
					return tt.SExt(w, v)
				}
				return tt.ZExt(w, v)
			case KFP:
				if v.IsConst() {
					return tt.BV(w, uint64(int64(v.F)))
				}
				return tt.mk(fmt.Sprintf("(_ fp.to_sbv %d) RTZ", w), BVSort(w), v)
			}
		}
		if bt.Info()&types.IsFloat != 0 {
			v := x.(*Term)
			switch v.Sort.K {
			case KFP:
				return v
			case KBV:
				fb := basicOf(from)
				_, fsigned, _ := intWidth(fb)
				if v.IsConst() {
					if fsigned {
						return tt.FP(float64(sext64(v.U, v.Sort.W)))
					}
					return tt.FP(float64(v.U))
				}
				if fsigned {
					return tt.mk("(_ to_fp 11 53) RNE", SFP, v)
				}
				return tt.mk("(_ to_fp_unsigned 11 53) RNE", SFP, v)
			}
		}
	}
	if st, ok := ut.(*types.Slice); ok {
		// []byte(s) / []rune(s)
		if s, ok := x.(*Term); ok && s.Sort.K == KStr {
			b := basicOf(st.Elem())
			if b != nil && b.Kind() == types.Uint8 {
				return e.strToBytes(s)
			}
			if b != nil && b.Kind() == types.Int32 {
				if s.IsConst() {
					var r Slice = Slice{}
					for _, ru := range s.S {
						r = append(r, tt.BV(32, uint64(ru)))
					}
					return r
				}
				e.unsupported("[]rune(symbolic string)")
			}
		}
		return x
	}
	if _, ok := x.(*Term); !ok {
		return x
	}
	e.unsupported("convert %v -> %v", from, to)
	return nil
}

// byteToStr converts a BV8 term into a one-character string term.
func (e *Exec) byteToStr(t *Term) *Term {
	tt := e.tt
	if t.IsConst() {
		return tt.Str(string([]byte{byte(t.U)}))
	}
	if t.Op == "(_ int2bv 8)" && t.Args[0].Op == "str.to_code" {
		return t.Args[0].Args[0]
	}
	return tt.FromCode(tt.BV2I(t))
}

// strByte returns s[i] as BV8 (i already known in range).
func (e *Exec) strByte(s *Term, i *Term) *Term {
	tt := e.tt
	return tt.I2BV(8, tt.ToCode(tt.At(s, i)))
}

func (e *Exec) strToBytes(s *Term) Value {
	tt := e.tt
	if s.IsConst() {
		r := make(Slice, len(s.S))
		for i := 0; i < len(s.S); i++ {
			r[i] = tt.BV(8, uint64(s.S[i]))
		}
		return r
	}
	n := int(e.concretize(tt.I2BV(64, tt.StrLen(s)), 9, "[]byte(s) length"))
	r := make(Slice, n)
	for i := 0; i < n; i++ {
		r[i] = e.strByte(s, tt.Int(int64(i)))
	}
	return r
}

// intOf converts a BV index term to Int (for string ops), non-negative assumed after checks.
func (e *Exec) intOf(t *Term) *Term { return e.tt.BV2I(t) }

// lenTerm returns len(v) as BV64.
func (e *Exec) lenOf(v Value) *Term {
	tt := e.tt
	switch v := v.(type) {
	case *Term:
		if v.Sort.K == KStr {
			return tt.I2BV(64, tt.StrLen(v))
		}
	case Slice:
		return tt.BV(64, uint64(len(v)))
	case Array:
		return tt.BV(64, uint64(len(v)))
	case Ptr:
		if v == nil {
			return tt.BV(64, 0)
		}
		return tt.BV(64, uint64(len((*v).(Array))))
	case *MapObj:
		if v == nil {
			return tt.BV(64, 0)
		}
		return tt.BV(64, uint64(len(v.live())))
	case *ChanObj:
		if v == nil {
			return tt.BV(64, 0)
		}
		return tt.BV(64, uint64(len(v.Buf)))
	case *SymBytes:
		if v == nil || v.Nil {
			return tt.BV(64, 0)
		}
		return v.Len
	}
	panic(fmt.Sprintf("lenOf %T", v))
}

func (e *Exec) capOf(v Value) *Term {
	tt := e.tt
	switch v := v.(type) {
	case Slice:
		return tt.BV(64, uint64(cap(v)))
	case Array:
		return tt.BV(64, uint64(len(v)))
	case Ptr:
		if v == nil {
			return tt.BV(64, 0)
		}
		return tt.BV(64, uint64(len((*v).(Array))))
	case *ChanObj:
		if v == nil {
			return tt.BV(64, 0)
		}
		return tt.BV(64, uint64(v.Cap))
	case *SymBytes:
		if v == nil || v.Nil {
			return tt.BV(64, 0)
		}
		return v.Cap
	}
	panic(fmt.Sprintf("capOf %T", v))
}

// checkIndex forks on 0 <= i < n (BV64 signed); returns false after raising a panic.
func (e *Exec) checkIndex(g *G, i, n *Term, what string) bool {
	tt := e.tt
	if i.Sort.W != 64 {
		i = tt.ZExt(64, i)
	}
	inRange := tt.BVCmp("bvult", i, n) // unsigned compare covers negatives
	if x, ok := tt.asLen(n); ok && tt.isI2BV(n) {
		if y, ok := tt.asLen(i); ok {
			inRange = tt.ILt(y, x)
		}
	}
	if !e.branch(inRange) {
		e.runtimePanic(g, "index out of range ("+what+")")
		return false
	}
	return true
}

func (e *Exec) indexConcrete(i *Term, n int, what string) int {
	if i.Sort.W != 64 {
		i = e.tt.ZExt(64, i)
	}
	return int(e.concretize(i, 32, what))
}

func (e *Exec) indexAddr(g *G, fr *Frame, in *ssa.IndexAddr) (Value, bool) {
	x := e.get(fr, in.X)
	idx := e.get(fr, in.Index).(*Term)
	if idx.Sort.W != 64 {
		idx = e.extendIndex(in.Index.Type(), idx)
	}
	switch x := x.(type) {
	case Slice:
		if !e.checkIndex(g, idx, e.tt.BV(64, uint64(len(x))), "slice") {
			return nil, false
		}
		i := e.indexConcrete(idx, len(x), "slice index")
		return Ptr(&x[i]), true
	case Ptr: // *array
		if x == nil {
			e.runtimePanic(g, "nil pointer dereference (array index)")
			return nil, false
		}
		a := (*x).(Array)
		if !e.checkIndex(g, idx, e.tt.BV(64, uint64(len(a))), "array") {
			return nil, false
		}
		i := e.indexConcrete(idx, len(a), "array index")
		return Ptr(&a[i]), true
	case *SymBytes:
		if !e.checkIndex(g, idx, x.Len, "bytes") {
			return nil, false
		}
		return e.symBytesElemPtr(x, idx), true
	}
	e.unsupported("IndexAddr on %T", x)
	return nil, false
}

func (e *Exec) extendIndex(t types.Type, idx *Term) *Term {
	b := basicOf(t)
	_, signed, _ := intWidth(b)
	if signed {
		return e.tt.SExt(64, idx)
	}
	return e.tt.ZExt(64, idx)
}

func (e *Exec) indexOp(g *G, fr *Frame, in *ssa.Index) (Value, bool) {
	x := e.get(fr, in.X)
	idx := e.get(fr, in.Index).(*Term)
	if idx.Sort.W != 64 {
		idx = e.extendIndex(in.Index.Type(), idx)
	}
	switch x := x.(type) {
	case Array:
		if !e.checkIndex(g, idx, e.tt.BV(64, uint64(len(x))), "array") {
			return nil, false
		}
		i := e.indexConcrete(idx, len(x), "array index")
		return copyVal(x[i]), true
	case *Term: // string (generic code)
		if !e.checkIndex(g, idx, e.lenOf(x), "string") {
			return nil, false
		}
		return e.strByte(x, e.intOf(idx)), true
	}
	e.unsupported("Index on %T", x)
	return nil, false
}

func (e *Exec) lookupOp(g *G, fr *Frame, in *ssa.Lookup) (Value, bool) {
	x := e.get(fr, in.X)
	switch x := x.(type) {
	case *Term: // string index
		idx := e.get(fr, in.Index).(*Term)
		if idx.Sort.W != 64 {
			idx = e.extendIndex(in.Index.Type(), idx)
		}
		if !e.checkIndex(g, idx, e.lenOf(x), "string") {
			return nil, false
		}
		return e.strByte(x, e.intOf(idx)), true
	case *MapObj:
		k := e.get(fr, in.Index)
		vt := in.X.Type().Underlying().(*types.Map).Elem()
		var v Value
		found := false
		if x != nil {
			if en := e.mapLookup(x, k); en != nil {
				v, found = copyVal(en.V), true
			}
		}
		if !found {
			v = e.zero(vt)
		}
		if in.CommaOk {
			return Tuple{v, e.tt.Bool(found)}, true
		}
		return v, true
	}
	e.unsupported("Lookup on %T", x)
	return nil, false
}

// ---------- maps ----------

func (e *Exec) mapLookup(m *MapObj, k Value) *MapEntry {
	for _, en := range m.Entries {
		if !en.Live {
			continue
		}
		if e.branch(e.eqValues(en.K, k)) {
			return en
		}
	}
	return nil
}

func (e *Exec) mapUpdate(m *MapObj, k, v Value) {
	if en := e.mapLookup(m, k); en != nil {
		en.V = copyVal(v)
		return
	}
	m.seq++
	m.Entries = append(m.Entries, &MapEntry{K: copyVal(k), V: copyVal(v), Live: true, Seq: m.seq})
}

func (e *Exec) mapDelete(m *MapObj, k Value) {
	if m == nil {
		return
	}
	if en := e.mapLookup(m, k); en != nil {
		en.Live = false
	}
}

func (e *Exec) rangeIter(x Value, in *ssa.Range) Value {
	switch x := x.(type) {
	case *MapObj:
		it := &MapIter{M: x, Visited: map[*MapEntry]bool{}}
		if in != nil && isCommutativeRange(in) {
			it.Ordered = true
		}
		if x != nil {
			it.StartN = x.seq
		}
		return it
	case *Term:
		it := &StrIter{S: x}
		if x.IsConst() {
			it.B = []byte(x.S)
		}
		return it
	}
	panic(fmt.Sprintf("rangeIter %T", x))
}

func (e *Exec) iterNext(g *G, it Value, in *ssa.Next) Value {
	tt := e.tt
	switch it := it.(type) {
	case *MapIter:
		tup := in.Type().(*types.Tuple)
		if it.M == nil {
			return Tuple{tt.False, e.zeroOrNil(tup.At(1).Type()), e.zeroOrNil(tup.At(2).Type())}
		}
		var cands []*MapEntry
		var late []*MapEntry
		for _, en := range it.M.Entries {
			if en.Live && !it.Visited[en] {
				if en.Seq > it.StartN {
					late = append(late, en)
				} else {
					cands = append(cands, en)
				}
			}
		}
		maxr := 3
		if e.hcfg != nil && e.hcfg.MaxRange > 0 {
			maxr = e.hcfg.MaxRange
		}
		if len(cands)+len(late) > maxr+1 && !it.Ordered {
			e.fail(OutBound, "range over map with %d unvisited entries (bound %d)", len(cands)+len(late), maxr)
		}
		// entries added during iteration may or may not be produced: option "stop ignoring late ones"
		n := len(cands) + len(late)
		if n == 0 {
			return Tuple{tt.False, e.zeroOrNil(tup.At(1).Type()), e.zeroOrNil(tup.At(2).Type())}
		}
		nopt := n
		if len(cands) == 0 {
			nopt = n + 1 // also: terminate without visiting late entries
		}
		c := 0
		if !it.Ordered {
			c = e.chooseN(nopt, "maprange")
		}
		if c >= n {
			return Tuple{tt.False, e.zeroOrNil(tup.At(1).Type()), e.zeroOrNil(tup.At(2).Type())}
		}
		var en *MapEntry
		if c < len(cands) {
			en = cands[c]
		} else {
			en = late[c-len(cands)]
		}
		it.Visited[en] = true
		return Tuple{tt.True, copyVal(en.K), copyVal(en.V)}
	case *StrIter:
		if it.B != nil || it.S.IsConst() {
			if it.Pos >= len(it.B) {
				return Tuple{tt.False, tt.BV(64, 0), tt.BV(32, 0)}
			}
			r, sz := utf8.DecodeRune(it.B[it.Pos:])
			p := it.Pos
			it.Pos += sz
			return Tuple{tt.True, tt.BV(64, uint64(p)), tt.BV(32, uint64(r))}
		}
		// symbolic string: ASCII assumption, one byte per rune
		more := tt.ILt(tt.Int(int64(it.Pos)), tt.StrLen(it.S))
		if !e.branch(more) {
			return Tuple{tt.False, tt.BV(64, 0), tt.BV(32, 0)}
		}
		if it.Pos > 64 {
			e.fail(OutBound, "range over symbolic string longer than 64")
		}
		p := it.Pos
		it.Pos++
		return Tuple{tt.True, tt.BV(64, uint64(p)), tt.I2BV(32, tt.ToCode(tt.At(it.S, tt.Int(int64(p)))))}
	}
	panic(fmt.Sprintf("iterNext %T", it))
}

func (e *Exec) zeroOrNil(t types.Type) Value {
	if t == nil {
		return nil
	}
	if b, ok := t.(*types.Basic); ok && b.Kind() == types.Invalid {
		return nil
	}
	return e.zero(t)
}

// ---------- slicing ----------

func (e *Exec) sliceOp(g *G, in *ssa.Slice, fr *Frame) (Value, bool) {
	tt := e.tt
	x := e.get(fr, in.X)
	var lo, hi, max *Term
	if in.Low != nil {
		lo = e.to64(in.Low.Type(), e.get(fr, in.Low).(*Term))
	}
	if in.High != nil {
		hi = e.to64(in.High.Type(), e.get(fr, in.High).(*Term))
	}
	if in.Max != nil {
		max = e.to64(in.Max.Type(), e.get(fr, in.Max).(*Term))
	}
	switch x := x.(type) {
	case *Term: // string
		n := e.lenOf(x)
		if lo == nil {
			lo = tt.BV(64, 0)
		}
		if hi == nil {
			hi = n
		}
		// 0 <= lo <= hi <= n
		ok := tt.And(e.ule(lo, hi), e.ule(hi, n))
		if !e.branch(ok) {
			e.runtimePanic(g, "slice bounds out of range (string)")
			return nil, false
		}
		li, hiI := e.intOf(lo), e.intOf(hi)
		return tt.SubStr(x, li, tt.ISub(hiI, li)), true
	case Slice:
		return e.sliceConcrete(g, []Value(x), x == nil, lo, hi, max)
	case Ptr: // *array
		if x == nil {
			e.runtimePanic(g, "nil pointer dereference (slice of array)")
			return nil, false
		}
		a := (*x).(Array)
		return e.sliceConcrete(g, []Value(a), false, lo, hi, max)
	case *SymBytes:
		return e.sliceSymBytes(g, x, lo, hi, max)
	}
	e.unsupported("Slice on %T", x)
	return nil, false
}

func (e *Exec) ule(a, b *Term) *Term {
	tt := e.tt
	if x, ok := tt.asLen(a); ok {
		if y, ok := tt.asLen(b); ok && (tt.isI2BV(a) || tt.isI2BV(b)) {
			return tt.ILe(x, y)
		}
	}
	return tt.And(tt.BVCmp("bvsle", tt.BV(64, 0), a), tt.BVCmp("bvsle", a, b))
}

func (e *Exec) to64(t types.Type, v *Term) *Term {
	if v.Sort.W == 64 {
		return v
	}
	return e.extendIndex(t, v)
}

func (e *Exec) sliceConcrete(g *G, s []Value, isNil bool, lo, hi, max *Term) (Value, bool) {
	tt := e.tt
	l, h, m := 0, len(s), cap(s)
	n := tt.BV(64, uint64(cap(s)))
	if lo == nil {
		lo = tt.BV(64, 0)
	}
	if hi == nil {
		hi = tt.BV(64, uint64(len(s)))
	}
	if max == nil {
		max = n
	}
	ok := tt.AndN(tt.BVCmp("bvsle", tt.BV(64, 0), lo), tt.BVCmp("bvsle", lo, hi), tt.BVCmp("bvsle", hi, max), tt.BVCmp("bvsle", max, n))
	if !e.branch(ok) {
		e.runtimePanic(g, fmt.Sprintf("slice bounds out of range [%s:%s:%s] with capacity %d", lo, hi, max, cap(s)))
		return nil, false
	}
	l = int(e.concretize(lo, 32, "slice low"))
	h = int(e.concretize(hi, 32, "slice high"))
	m = int(e.concretize(max, 32, "slice max"))
	if isNil {
		return Slice(nil), true
	}
	return Slice(s[l:h:m]), true
}

// ---------- type assertions ----------

func (e *Exec) typeAssert(g *G, in *ssa.TypeAssert, x Iface) (Value, bool) {
	tt := e.tt
	ok := false
	var v Value
	if x.T != nil {
		if it, isIface := in.AssertedType.Underlying().(*types.Interface); isIface {
			ok = e.implements(x, it)
			if ok {
				v = x
			}
		} else {
			if types.Identical(x.T, in.AssertedType) {
				ok = true
				v = x.V
			}
		}
	}
	if in.CommaOk {
		if !ok {
			v = e.zero(in.AssertedType)
		}
		return Tuple{v, tt.Bool(ok)}, true
	}
	if !ok {
		e.raise(g, &PanicVal{Runtime: fmt.Sprintf("interface conversion: %v is not %v", x.T, in.AssertedType), Pos: in.Pos()})
		return nil, false
	}
	return v, true
}

func (e *Exec) implements(x Iface, it *types.Interface) bool {
	if _, isErr := x.V.(*ErrVal); isErr {
		// abstract errors implement error (and Unwrap) only
		for i := 0; i < it.NumMethods(); i++ {
			n := it.Method(i).Name()
			if n != "Error" && n != "Unwrap" {
				return false
			}
		}
		return true
	}
	if gobj, ok := x.V.(*GoObj); ok {
		return objImplements(gobj, it)
	}
	if e.hcfg != nil && e.hcfg.MethodSetHook != nil {
		if r, handled := e.hcfg.MethodSetHook(e, x, it); handled {
			return r
		}
	}
	return types.Implements(x.T, it)
}

// ---------- static detection of order-independent map-copy loops ----------

var commutativeRange = map[*ssa.Range]bool{}
var commutativeRangeMu sync.Mutex

// isCommutativeRange reports whether the loop fed by a map Range only performs
// `other[k] = v` style updates (k, v the loop's own key/value, other a loop-invariant map
// different from the ranged one). With pairwise distinct keys such updates commute, so the
// iteration order is unobservable and no fork over orders is needed.
func isCommutativeRange(r *ssa.Range) bool {
	commutativeRangeMu.Lock()
	defer commutativeRangeMu.Unlock()
	if v, ok := commutativeRange[r]; ok {
		return v
	}
	res := analyzeRange(r)
	commutativeRange[r] = res
	return res
}

func analyzeRange(r *ssa.Range) bool {
	if _, ok := r.X.Type().Underlying().(*types.Map); !ok {
		return false
	}
	refs := r.Referrers()
	if refs == nil || len(*refs) != 1 {
		return false
	}
	next, ok := (*refs)[0].(*ssa.Next)
	if !ok {
		return false
	}
	hdr := next.Block()
	// header: next, extract ok, if ok
	var okv, kv, vv ssa.Value
	for _, ref := range *next.Referrers() {
		ex, ok := ref.(*ssa.Extract)
		if !ok {
			return false
		}
		switch ex.Index {
		case 0:
			okv = ex
		case 1:
			kv = ex
		case 2:
			vv = ex
		}
	}
	if okv == nil {
		return false
	}
	ifi, ok := hdr.Instrs[len(hdr.Instrs)-1].(*ssa.If)
	if !ok || ifi.Cond != okv {
		return false
	}
	body := hdr.Succs[0]
	// collect loop body blocks: reachable from body without passing through hdr
	seen := map[*ssa.BasicBlock]bool{hdr: true}
	var stack = []*ssa.BasicBlock{body}
	var blocks []*ssa.BasicBlock
	backEdge := false
	for len(stack) > 0 {
		b := stack[len(stack)-1]
		stack = stack[:len(stack)-1]
		if seen[b] {
			continue
		}
		seen[b] = true
		blocks = append(blocks, b)
		if len(blocks) > 4 {
			return false
		}
		for _, s := range b.Succs {
			if s == hdr {
				backEdge = true
				continue
			}
			stack = append(stack, s)
		}
	}
	if !backEdge {
		return false
	}
	inLoop := func(v ssa.Value) bool {
		in, ok := v.(ssa.Instruction)
		if !ok {
			return false
		}
		if in.Block() == hdr {
			return true
		}
		for _, b := range blocks {
			if in.Block() == b {
				return true
			}
		}
		return false
	}
	for _, in := range hdr.Instrs {
		switch in.(type) {
		case *ssa.Next, *ssa.Extract, *ssa.If, *ssa.Phi, *ssa.DebugRef:
		default:
			return false
		}
	}
	if isGuardedBitSetBody(hdr, blocks, inLoop) {
		return true
	}
	for _, b := range blocks {
		if len(b.Succs) != 1 || b.Succs[0] != hdr {
			return false // straight-line body only
		}
		for _, in := range b.Instrs {
			switch x := in.(type) {
			case *ssa.Extract, *ssa.Jump, *ssa.DebugRef:
			case *ssa.MapUpdate:
				if x.Map == r.X || inLoop(x.Map) {
					return false
				}
				if x.Key != kv {
					return false
				}
				if x.Value != vv {
					if _, isConst := x.Value.(*ssa.Const); !isConst {
						return false
					}
				}
			default:
				return false
			}
		}
	}
	return true
}

// isGuardedBitSetBody recognises the second commutative shape: `for k, v := range m { if pure(k) { acc.Set(v) } }`
// where pure is strings.Contains and Set is (*api.EventMask).Set on a receiver defined outside the loop.
// Set is a bitwise or into one accumulator (commutative, idempotent) and the guard is a pure function of
// immutable strings, so the final accumulator does not depend on the iteration order.
func isGuardedBitSetBody(hdr *ssa.BasicBlock, blocks []*ssa.BasicBlock, inLoop func(ssa.Value) bool) bool {
	sets := 0
	for _, b := range blocks {
		for _, s := range b.Succs {
			ok := s == hdr
			for _, bb := range blocks {
				if s == bb {
					ok = true
				}
			}
			if !ok {
				return false // no exit from the body other than back to the header
			}
		}
		for _, in := range b.Instrs {
			switch x := in.(type) {
			case *ssa.Extract, *ssa.Jump, *ssa.DebugRef:
			case *ssa.Alloc: // the variadic argument array of Set, local to one iteration
			case *ssa.IndexAddr:
				if !inLoop(x.X) {
					return false
				}
			case *ssa.Slice:
				if !inLoop(x.X) {
					return false
				}
			case *ssa.Store:
				if !inLoop(x.Addr) {
					return false // stores only into the per-iteration argument array
				}
			case *ssa.If:
				c, ok := x.Cond.(*ssa.Call)
				if !ok || !inLoop(c) {
					return false
				}
			case *ssa.Call:
				callee := x.Call.StaticCallee()
				if callee == nil || x.Call.IsInvoke() {
					return false
				}
				switch callee.String() {
				case "strings.Contains":
					// pure: its string arguments are immutable SSA values (loop variables, constants or
					// values defined before the loop), so the guard cannot depend on earlier iterations
				case "(*github.com/containerd/nri/pkg/api.EventMask).Set":
					if len(x.Call.Args) < 1 || inLoop(x.Call.Args[0]) {
						return false
					}
					if x.Referrers() != nil && len(*x.Referrers()) != 0 {
						return false
					}
					sets++
				default:
					return false
				}
			default:
				return false
			}
		}
	}
	return sets > 0
}
