#!/bin/sh
# Runs the hand-written native reproductions of the C16 model-level findings against /repo (overlay).
export GOFLAGS=-mod=mod GOPROXY=off GOSUMDB=off GOTOOLCHAIN=local
mkdir -p /verif/.work
cat > /verif/.work/c16_overlay.json <<EOJ
{"Replace":{"/repo/pkg/stub/zz_c16_native_test.go":"/verif/replay/c16_native_test.go"}}
EOJ
cd /repo/pkg/stub && go test -vet=off -count=1 -timeout 120s -overlay /verif/.work/c16_overlay.json -run 'TestNativeC16' -v . 2>&1 | grep -v conda
