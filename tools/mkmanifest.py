#!/usr/bin/env python3
# Regenerates /verif/MANIFEST.json from the table below.
import json, subprocess
props=[json.loads(l) for l in open('/verif/properties.jsonl')]
TECH="bounded symbolic execution of the real go/ssa code (symgo) with SMT (cvc5, z3 fallback) deciding every assertion"
claimed={
 "C01": dict(text="Every pair/triple of plugin responses within the bounds is run through the real (*result).apply symbolically (keys, values, ids, names are solver strings; numbers are 64-bit vectors); cvc5 decides on every path that an expected collision (reference ownership model written from the statement) implies an error. Holds for all values within: 2 plugins x <=2 items (quick <=1+2) and 3 plugins (1,2,1 items, thorough), all 29 item kinds for creation adjustments, all 20 resource kinds x {create,update,stop} requests for updates, arbitrary original container / pre-populated request of the family.",
              note="Outside: >3 plugins, >2 items per plugin per family, duplicates inside one response (A-WF), concurrency of requests (decided under C06: requests are serialised by the Adaptation lock), ignore-failure updates (C05). Trusted: go/ssa, symgo semantics+intrinsics (fmt.Errorf abstract, strings.* as SMT ops), solver verdicts; counterexamples are replayed natively before being reported.", ref="5 C01"),
 "C02": dict(text="Same executions as C01 with the converse assertion: whenever the reference model sees no live claim on any item a (well-formed) response sets - including after a removal marker by the same or an intermediate plugin - the real apply must return nil; original container and runtime update request arbitrary incl. every resource field pre-populated. 2 plugins x <=2 items, 3 plugins (1,1,1 quick; 1,2,1 thorough), all 29 item kinds, updates on 20 resource kinds x 3 request kinds with different-field and same-field/different-key/different-target pairs.",
              note="Outside: >3 plugins, >2 items, responses that set one item twice (A-WF). 'never blamed for a field it did not set' is decided only through the no-error verdict, not through the error text.", ref="5 C02"),
 "C05": dict(text="The real collect*Result / apply / *ContainerResponse code is compared entry by entry and field by field with a reference fold written from the statement (one entry per distinct target in first-touch order, own container last for update requests - placeholder if unchanged else runtime request overlaid -, exactly the set fields, update of the container under creation fails, conflicting ignore-failure update dropped whole). Symbolic: target ids (all equal/unequal patterns), presence and values of the active scalar fields, ignore-failure flags, pre-populated update request. Bounds: 2 plugins x 1 update (quick) / 1+2 updates and 3 plugins (thorough); 18 scalar resource fields singly and in 18 pairs; create/update/stop requests.",
              note="Outside: >2 simultaneously active fields per instance (other fields are checked to stay unset), hugepage/unified entries in updates (conflicts on them are decided under C01/C02), a plugin setting the same field of the same target twice (A-WF), device-cgroup rules of the runtime request (Copy() does not carry them; see DESIGN F9).", ref="5 C05"),
 "C14": dict(text="Round trips NRI->OCI->NRI and OCI->NRI->OCI of resources (13 optional scalars in all/none/exactly-one/all-but-one presence patterns with full-width symbolic values, cpuset strings, <=2 hugepage limits, <=2 unified keys, pids, <=2 device-cgroup rules), mounts (<=2, <=2 options), devices (optional mode/uid/gid), hooks (6 stages, <=2 args/env, optional timeout), env (any key without '='); Copy(): field equality and heap disjointness computed on the engine's heap (reachable pointer/slice/map objects of original and copy do not intersect); all optional constructors for nil pointer / value / pointer-to-value with full-width symbolic values; event-mask print/parse for all 8191 valid non-empty masks (the printer forks per bit: exhaustive path enumeration, each printed string is concrete and goes through the real parser).",
              note="Outside: >2 elements per list; LinuxResources.Copy() does not carry Devices (not in the property's list); FromOCILinuxResources ignores BlockIO/RDT (no OCI counterpart in this API).", ref="5 C14"),
 "C13": dict(text="Pointwise pre/post conditions on a symbolic probe key, written from the statement (set wins over removal, otherwise removal, otherwise unchanged), decided on the real Generator.AdjustAnnotations/AdjustEnv/AdjustDevices/AdjustMounts/Adjust with the runtime-tools generator methods executed from their own SSA, for every map iteration order and both list orders: <=2 existing items and <=2 adjustment entries (set / removal / both) per family with symbolic keys and values; mounts over a 6-element path lattice incl. the parent-before-child ordering; existing env entry without '='; CPU shares/quota/period/realtime/cpuset, memory limit, hugepage, unified, pids, cgroups path, OOM score, args with full-width symbolic values and 'everything not named unchanged'; hooks of all six stages, rlimits appended in order, CDI names handed to the injector.",
              note="Outside: >2 items per family, unbounded mount paths (filepath.Clean on symbolic strings), a requested memory limit of 0 (treated as unset by design) and the limit->swap coupling, block-I/O / RDT class resolvers, ensurePropagation (/proc mountinfo). Determinism = the postcondition is a function of the inputs on every explored order.", ref="5 C13"),
}
NA_DEFAULT="check not built yet in this session (engine exists; harness for this property pending)"
na={}
checks=[]
for p in props:
    i=p['id']
    if i in claimed:
        c=claimed[i]
        checks.append({"property_id":i,"quick_cmd":f"/verif/check {i} quick","thorough_cmd":f"/verif/check {i} thorough",
          "evidence_file":f"/verif/evidence/{i}.json","replay_cmd_template":"/verif/check replay {path}","engine":"symgo",
          "level_claimed":{"category":"model_checking","text":c['text'],"design_ref":"DESIGN.md "+c['ref']},
          "level_note":c['note'],"technique":c.get('tech',TECH)})
    else:
        na[i]=na.get(i,NA_DEFAULT)
commits=subprocess.run(['git','-C','/repo','log','--format=%h %s','fe378df..HEAD'],capture_output=True,text=True).stdout.strip().split('\n')
m={"version":1,
 "setup_cmd":"cd /verif/symgo && GOFLAGS=-mod=mod GOPROXY=off GOSUMDB=off GOTOOLCHAIN=local go build -o /verif/bin/symgo .",
 "hooks":{"guard":"verif","enable":"no source hooks: harnesses are injected into /repo's packages by go/packages overlay at check time (and by `go test -overlay` for native replay); /repo carries only unguarded 'fix:' commits",
   "baseline_off_cmd":"cd /repo && export GOFLAGS=-mod=mod GOPROXY=off GOSUMDB=off && go test -vet=off -count=1 ./... && (cd plugins/device-injector && go test -vet=off -count=1 ./...) && (cd plugins/ulimit-adjuster && go test -vet=off -count=1 ./...)",
   "source_commits":[c for c in commits if c],"add_only":True},
 "engines":[{"name":"symgo","path":"/verif/symgo","serves_properties":sorted(claimed.keys()),"kind_free_text":"forking symbolic executor over go/ssa (rebuilt from /repo on every run), SMT-LIB2 to cvc5 --incremental (z3 fallback), DFS by re-execution with work splitting over 16 cores, native replay of counterexamples via go test -overlay"}],
 "checks":checks,
 "not_applicable":[{"property_id":k,"reason":v} for k,v in sorted(na.items())],
 "notes":"Exit codes: 0 held within bounds, 1 VIOLATION (natively reproduced, not in known_findings.txt), 2 INCONCLUSIVE (solver unknown, bound exceeded, unsupported instruction, witness not reached, unconfirmed model). See DESIGN.md."}
json.dump(m,open('/verif/MANIFEST.json','w'),indent=1)
print("claimed:",sorted(claimed.keys()))
