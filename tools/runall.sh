#!/bin/sh
# usage: tools/runall.sh quick|thorough [ids...]  - runs the registered checks in /verif against /repo, writes evidence
tier="${1:-quick}"; shift
ids="$@"
[ -z "$ids" ] && ids="C01 C02 C03 C04 C05 C06 C07 C08 C09 C10 C11 C12 C13 C14 C15 C16 C17 C18 C19 C20"
for id in $ids; do
  s=$(date +%s)
  out=$(/verif/check $id $tier 2>&1); rc=$?
  e=$(date +%s)
  echo "$id rc=$rc $((e-s))s $(echo "$out" | grep -E 'VIOLATION|KNOWN-FINDING|INCONCLUSIVE|UNCONFIRMED' | head -3 | cut -c1-200 | tr '\n' '|')"
done
