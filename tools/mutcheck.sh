#!/bin/sh
# usage: tools/mutcheck.sh <patch.diff> <property> [tier] [extra symgo args]
# applies a seeded change to /repo, runs the check (no evidence written), and reverts.
patch="$1"; prop="$2"; tier="${3:-quick}"; shift 3 2>/dev/null
export GOFLAGS=-mod=mod GOPROXY=off GOSUMDB=off GOTOOLCHAIN=local
git -C /repo apply "$patch" || { echo "PATCH DOES NOT APPLY"; exit 3; }
trap 'git -C /repo checkout -- .' EXIT INT TERM
/verif/bin/symgo run --property "$prop" --tier "$tier" --no-evidence --budget 900s "$@" 2>/dev/null | grep -E "VIOLATION|KNOWN|UNCONF|INCONCL|SUMMARY"
git -C /repo checkout -- .
git -C /repo status --short | grep -v '^??'
