#!/bin/sh
# usage: tools/seedsweep.sh [seed dir names...]   (default: every /verif/seeded/*/ with a patch.diff)
# Runs the quick check of each seed's property against a scratch worktree of /repo's HEAD with the seeded
# change applied (so /repo itself stays untouched), and records the first violations per seed in
# /verif/seeded/RESULTS.txt. The worktree is removed at the end.
export GOFLAGS=-mod=mod GOPROXY=off GOSUMDB=off GOTOOLCHAIN=local
cd /verif || exit 2
W=${SWEEP_WT:-/tmp/sweeprepo}
git -C /repo worktree remove --force $W 2>/dev/null
git -C /repo worktree add -q --detach $W HEAD || exit 2
trap 'git -C /repo worktree remove --force $W; git -C /repo worktree prune' EXIT INT TERM
all=0
if [ $# -eq 0 ]; then all=1; set -- $(ls seeded | grep -v RESULTS); fi
out=/verif/seeded/RESULTS.txt
[ $all = 1 ] && : > $out
for s in "$@"; do
  d=/verif/seeded/$s
  [ -f $d/patch.diff ] || continue
  prop=$(python3 -c "import json;print(json.load(open('$d/meta.json'))['property'])")
  git -C $W checkout -q -- . && git -C $W apply $d/patch.diff || { echo "$s check=$prop PATCH DOES NOT APPLY" | tee -a $out; continue; }
  if [ "$prop" = "C12" ]; then sed "s#/repo/#$W/#" tools/gen_c12.py > $W.gen_c12.py; python3 $W.gen_c12.py >/dev/null; rm -f $W.gen_c12.py; fi
  t0=$(date +%s)
  res=$(/verif/bin/symgo run --repo $W --property $prop --tier quick --no-evidence --budget 1200s 2>/dev/null | grep -E "^VIOLATION|INCONCL|SUMMARY")
  t1=$(date +%s)
  nv=$(echo "$res" | grep -c '^VIOLATION')
  first=$(echo "$res" | grep -E '^VIOLATION' | head -2 | sed -e 's/^VIOLATION property=[A-Z0-9]* replay=[^ ]* key=//' | cut -c1-150 | tr '\n' '|')
  rc=$(echo "$res" | grep SUMMARY | sed -e 's/.*exit=\([0-9]\).*/\1/')
  echo "$s check=$prop exit=$rc violations=$nv $((t1-t0))s $first" | tee -a $out
done
[ "$prop" = "C12" ] || true
python3 /verif/tools/gen_c12.py >/dev/null 2>&1
