#!/usr/bin/env python3
"""Rewrites the seeded-change table of DESIGN.md (between the SEEDTABLE markers) from /verif/seeded/*/meta.json
and /verif/seeded/RESULTS.txt (written by tools/seedsweep.sh)."""
import json, glob, os, re
res = {}
if os.path.exists('/verif/seeded/RESULTS.txt'):
    for l in open('/verif/seeded/RESULTS.txt'):
        f = l.split()
        if len(f) >= 4 and f[1].startswith('check='):
            m = re.match(r'(\S+) check=(\S+) exit=(\S*) violations=(\d+) (\d+)s ?(.*)', l.strip())
            if m:
                res[m.group(1)] = m.groups()
rows = []
NOTES = {'C16': ' - the change is in the multiplexer, which the C16 harness replaces by a model; it is reported by the C11 check (`H_C11_cut`: deadlock), see round 1 above'}
def key(d):
    b = os.path.basename(d.rstrip('/'))
    p, _, r = b.partition('-')
    return (int(r or 1), p)
for d in sorted(glob.glob('/verif/seeded/C*/'), key=key):
    sid = os.path.basename(d.rstrip('/'))
    m = json.load(open(d + 'meta.json'))
    summ = m.get('summary', '').replace('|', '/').replace('\n', ' ')
    summ = re.sub(r'\s+', ' ', summ)
    if len(summ) > 230:
        summ = summ[:227] + '...'
    r = res.get(sid)
    if r:
        first = r[5].split('|')[0].strip()
        first = re.sub(r' \(assertion failed.*', '', first)
        first = re.sub(r' \(goroutine.*', '', first)
        first = re.sub(r' \(all goroutines.*', '', first)
        caught = ('exit=%s, %s violation key(s); first: `%s`' % (r[2], r[3], first)) if r[3] != '0' else 'NOT caught (exit=%s)' % r[2]
    else:
        caught = '(not swept yet)'
    caught += NOTES.get(sid, '')
    rows.append('| %s | %s | %s |' % (sid, summ, caught))
table = '| seed | change | quick check of its property |\n|---|---|---|\n' + '\n'.join(rows) + '\n'
p = '/verif/DESIGN.md'
s = open(p).read()
a, b = '<!-- SEEDTABLE BEGIN -->\n', '<!-- SEEDTABLE END -->\n'
if a in s:
    s = s[:s.index(a) + len(a)] + table + s[s.index(b):]
    open(p, 'w').write(s)
    print('table rewritten:', len(rows), 'rows,', sum(1 for r in rows if 'NOT caught' in r), 'not caught,', sum(1 for r in rows if 'not swept' in r), 'not swept')
else:
    print(table)
