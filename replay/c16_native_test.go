package stub

// Native reproductions (real ttrpc, real multiplexer, in-memory pipe) of the two model-level findings of
// the C16 check. Run with: /verif/tools/native_c16.sh   (go test -overlay into /repo/pkg/stub).
//   TestNativeC16StartHangsWhenConnectionDropsBeforeConfigure  (F6a)
//   TestNativeC16LateCloseNotificationHitsNextSession          (F6b)
// Each test FAILS when the defect is reproduced.

import (
	"context"
	stdnet "net"
	"sync"
	"testing"
	"time"

	"github.com/containerd/ttrpc"

	"github.com/containerd/nri/pkg/api"
	"github.com/containerd/nri/pkg/net/multiplex"
)

type nativePlugin struct{}

func (nativePlugin) RunPodSandbox(context.Context, *api.PodSandbox) error { return nil }

type fakeRuntime struct {
	conn      stdnet.Conn
	mux       multiplex.Mux
	rpcc      *ttrpc.Client
	rpcs      *ttrpc.Server
	dropAfterRegister bool
	configure bool
}

func (f *fakeRuntime) RegisterPlugin(ctx context.Context, req *api.RegisterPluginRequest) (*api.Empty, error) {
	if f.dropAfterRegister {
		// answer the registration, then drop the connection before configuring the plugin
		go func() {
			time.Sleep(50 * time.Millisecond)
			f.conn.Close()
		}()
		return &api.Empty{}, nil
	}
	if f.configure {
		go func() {
			api.NewPluginClient(f.rpcc).Configure(context.Background(), &api.ConfigureRequest{})
		}()
	}
	return &api.Empty{}, nil
}

func (f *fakeRuntime) UpdateContainers(context.Context, *api.UpdateContainersRequest) (*api.UpdateContainersResponse, error) {
	return &api.UpdateContainersResponse{}, nil
}

func startFakeRuntime(t *testing.T, conn stdnet.Conn, drop bool) *fakeRuntime {
	f := &fakeRuntime{conn: conn, dropAfterRegister: drop, configure: !drop}
	f.mux = multiplex.Multiplex(conn)
	pconn, err := f.mux.Open(multiplex.PluginServiceConn)
	if err != nil {
		t.Fatal(err)
	}
	f.rpcc = ttrpc.NewClient(pconn)
	f.rpcs, err = ttrpc.NewServer()
	if err != nil {
		t.Fatal(err)
	}
	l, err := f.mux.Listen(multiplex.RuntimeServiceConn)
	if err != nil {
		t.Fatal(err)
	}
	api.RegisterRuntimeService(f.rpcs, f)
	go f.rpcs.Serve(context.Background(), l)
	return f
}

func TestNativeC16StartHangsWhenConnectionDropsBeforeConfigure(t *testing.T) {
	pluginEnd, runtimeEnd := stdnet.Pipe()
	startFakeRuntime(t, runtimeEnd, true)
	st, err := New(nativePlugin{}, WithPluginName("plugin"), WithPluginIdx("00"), WithConnection(pluginEnd), WithOnClose(func() {}))
	if err != nil {
		t.Fatal(err)
	}
	done := make(chan error, 1)
	go func() { done <- st.Start(context.Background()) }()
	select {
	case err := <-done:
		t.Logf("Start returned: %v", err)
	case <-time.After(5 * time.Second):
		t.Fatalf("REPRODUCED F6a: Start still blocked 5s after the runtime dropped the connection between registration and configuration")
	}
}

func TestNativeC16LateCloseNotificationHitsNextSession(t *testing.T) {
	hits := 0
	for i := 0; i < 300 && hits == 0; i++ {
		var mu sync.Mutex
		closes := 0
		p1, r1 := stdnet.Pipe()
		startFakeRuntime(t, r1, false)
		conn := p1
		st, err := New(nativePlugin{}, WithPluginName("plugin"), WithPluginIdx("00"),
			WithDialer(func(string) (stdnet.Conn, error) { return conn, nil }),
			WithOnClose(func() { mu.Lock(); closes++; mu.Unlock() }))
		if err != nil {
			t.Fatal(err)
		}
		if err := st.Start(context.Background()); err != nil {
			t.Fatalf("first start: %v", err)
		}
		st.Stop()
		p2, r2 := stdnet.Pipe()
		startFakeRuntime(t, r2, false)
		conn = p2
		if err := st.Start(context.Background()); err != nil {
			continue // e.g. first session still winding down
		}
		time.Sleep(20 * time.Millisecond)
		if !st.(*stub).IsStarted() {
			hits++
			t.Logf("iteration %d: second session torn down by the first session's close notification", i)
		}
		st.Stop()
	}
	if hits > 0 {
		t.Fatalf("REPRODUCED F6b: a late close notification of the previous session tore down the new one")
	}
}

type refusingRuntime struct{ fakeRuntime }

func (f *refusingRuntime) RegisterPlugin(ctx context.Context, req *api.RegisterPluginRequest) (*api.Empty, error) {
	return nil, context.Canceled
}

func startRefusingRuntime(t *testing.T, conn stdnet.Conn) {
	f := &refusingRuntime{}
	f.conn = conn
	f.mux = multiplex.Multiplex(conn)
	pconn, _ := f.mux.Open(multiplex.PluginServiceConn)
	f.rpcc = ttrpc.NewClient(pconn)
	f.rpcs, _ = ttrpc.NewServer()
	l, _ := f.mux.Listen(multiplex.RuntimeServiceConn)
	api.RegisterRuntimeService(f.rpcs, f)
	go f.rpcs.Serve(context.Background(), l)
}

// F6c: after a failed handshake the stub must be able to start on a fresh connection.
func TestNativeC16RetryAfterFailedStartUsesFreshConnection(t *testing.T) {
	p1, r1 := stdnet.Pipe()
	startRefusingRuntime(t, r1)
	conn := p1
	dials := 0
	st, err := New(nativePlugin{}, WithPluginName("plugin"), WithPluginIdx("00"),
		WithDialer(func(string) (stdnet.Conn, error) { dials++; return conn, nil }), WithOnClose(func() {}))
	if err != nil {
		t.Fatal(err)
	}
	if err := st.Start(context.Background()); err == nil {
		t.Fatalf("first start unexpectedly succeeded")
	}
	p2, r2 := stdnet.Pipe()
	startFakeRuntime(t, r2, false)
	conn = p2
	done := make(chan error, 1)
	go func() { done <- st.Start(context.Background()) }()
	select {
	case err := <-done:
		if err != nil {
			t.Fatalf("REPRODUCED F6c: retry after a failed start failed (dials=%d): %v", dials, err)
		}
	case <-time.After(5 * time.Second):
		t.Fatalf("REPRODUCED F6c: retry after a failed start hangs (dials=%d)", dials)
	}
	st.Stop()
}

type slowCfgPlugin struct{ delay time.Duration }

func (p slowCfgPlugin) Configure(ctx context.Context, config, runtime, version string) (api.EventMask, error) {
	time.Sleep(p.delay)
	return 0, nil
}
func (slowCfgPlugin) RunPodSandbox(context.Context, *api.PodSandbox) error { return nil }

type cfgThenDropRuntime struct{ fakeRuntime }

func (f *cfgThenDropRuntime) RegisterPlugin(ctx context.Context, req *api.RegisterPluginRequest) (*api.Empty, error) {
	go api.NewPluginClient(f.rpcc).Configure(context.Background(), &api.ConfigureRequest{RegistrationTimeout: 5000, RequestTimeout: 2000})
	go func() {
		time.Sleep(50 * time.Millisecond)
		f.conn.Close()
	}()
	return &api.Empty{}, nil
}

type neverConfiguresRuntime struct{ fakeRuntime }

func (f *neverConfiguresRuntime) RegisterPlugin(ctx context.Context, req *api.RegisterPluginRequest) (*api.Empty, error) {
	return &api.Empty{}, nil
}

func serveRuntime(t *testing.T, f *fakeRuntime, impl api.RuntimeService, conn stdnet.Conn) {
	f.conn = conn
	f.mux = multiplex.Multiplex(conn)
	pconn, _ := f.mux.Open(multiplex.PluginServiceConn)
	f.rpcc = ttrpc.NewClient(pconn)
	f.rpcs, _ = ttrpc.NewServer()
	l, _ := f.mux.Listen(multiplex.RuntimeServiceConn)
	api.RegisterRuntimeService(f.rpcs, impl)
	go f.rpcs.Serve(context.Background(), l)
}

// F6d: the configuration result of a session whose connection was lost must not be taken for the next one.
func TestNativeC16StaleConfigurationResult(t *testing.T) {
	p1, r1 := stdnet.Pipe()
	rt1 := &cfgThenDropRuntime{}
	serveRuntime(t, &rt1.fakeRuntime, rt1, r1)
	conn := p1
	st, err := New(slowCfgPlugin{delay: 400 * time.Millisecond}, WithPluginName("plugin"), WithPluginIdx("00"),
		WithDialer(func(string) (stdnet.Conn, error) { return conn, nil }), WithOnClose(func() {}))
	if err != nil {
		t.Fatal(err)
	}
	if err := st.Start(context.Background()); err == nil {
		t.Skip("first start succeeded (configuration arrived before the connection was lost)")
	}
	p2, r2 := stdnet.Pipe()
	rt2 := &neverConfiguresRuntime{}
	serveRuntime(t, &rt2.fakeRuntime, rt2, r2)
	conn = p2
	done := make(chan error, 1)
	go func() { done <- st.Start(context.Background()) }()
	select {
	case err := <-done:
		if err == nil {
			t.Fatalf("REPRODUCED F6d: the second Start succeeded although its runtime never configured the plugin (stale result of the first session)")
		}
		t.Logf("second start failed as expected: %v", err)
	case <-time.After(2 * time.Second):
		t.Logf("second start still waiting for its own configuration after 2s (correct)")
	}
}
