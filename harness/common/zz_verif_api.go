package PKG

// Harness API. Under symgo every function below is intercepted by name (the
// bodies are never executed symbolically). Natively the bodies pop values from
// the replay file named by $VERIF_REPLAY, so a solver model becomes an ordinary
// `go test -overlay` run against the real build.

import (
	"context"
	"encoding/json"
	"fmt"
	"os"
	"reflect"
	"strconv"
	"strings"
	"time"
)

type verifNondetRec struct {
	Kind  string `json:"kind"`
	Name  string `json:"name"`
	Value string `json:"value"`
}

type verifReplayFile struct {
	Harness  string           `json:"harness"`
	Instance int              `json:"instance"`
	Label    string           `json:"label"`
	Nondet   []verifNondetRec `json:"nondet"`
}

var (
	verifReplay    verifReplayFile
	verifReplayPos int
	verifFailed    []string
)

type verifTB interface {
	Fatalf(format string, args ...interface{})
	Logf(format string, args ...interface{})
}

// verifSweep: native sampling mode (translator / trusted-base validation, decides nothing): harnesses run
// natively on pseudo-random inputs; VERIF_SWEEP="<harness>:<instances>:<rounds>:<seed>".
var (
	verifSweepOn bool
	verifRng     uint64
)

func verifRand() uint64 {
	verifRng ^= verifRng << 13
	verifRng ^= verifRng >> 7
	verifRng ^= verifRng << 17
	return verifRng
}

func verifSweepMain(t verifTB, hs map[string]func(), spec string) {
	var name string
	var inst, rounds int
	var seed uint64
	parts := strings.Split(spec, ":")
	if len(parts) != 4 {
		t.Fatalf("bad VERIF_SWEEP %q", spec)
	}
	name = parts[0]
	inst, _ = strconv.Atoi(parts[1])
	rounds, _ = strconv.Atoi(parts[2])
	seed, _ = strconv.ParseUint(parts[3], 10, 64)
	h, ok := hs[name]
	if !ok {
		t.Fatalf("unknown harness %s", name)
	}
	verifSweepOn = true
	verifRng = seed*2654435761 + 88172645463325252
	runs := 0
	for r := 0; r < rounds; r++ {
		for i := 0; i < inst; i++ {
			verifReplay = verifReplayFile{Harness: name, Instance: i}
			verifReplayPos = 0
			verifFailed = nil
			func() {
				defer func() {
					if x := recover(); x != nil {
						if s, ok := x.(string); ok && s == "verif-assume-false" {
							return
						}
						panic(x)
					}
				}()
				h()
			}()
			runs++
			if len(verifFailed) > 0 {
				t.Fatalf("VERIF-SWEEP-FAILED %s#%d: %v", name, i, verifFailed)
			}
		}
	}
	fmt.Printf("VERIF-SWEEP-OK %s runs=%d\n", name, runs)
}

func verifReplayMain(t verifTB, hs map[string]func()) {
	if spec := os.Getenv("VERIF_SWEEP"); spec != "" {
		verifSweepMain(t, hs, spec)
		return
	}
	p := os.Getenv("VERIF_REPLAY")
	if p == "" {
		return
	}
	b, err := os.ReadFile(p)
	if err != nil {
		t.Fatalf("replay file: %v", err)
	}
	if err := json.Unmarshal(b, &verifReplay); err != nil {
		t.Fatalf("replay file: %v", err)
	}
	verifReplayPos = 0
	verifFailed = nil
	h, ok := hs[verifReplay.Harness]
	if !ok {
		t.Fatalf("unknown harness %s", verifReplay.Harness)
	}
	func() {
		defer func() {
			if r := recover(); r != nil {
				if s, ok := r.(string); ok && s == "verif-assume-false" {
					t.Logf("VERIF-ASSUME-FALSE (path not taken natively, e.g. other map order)")
					return
				}
				fmt.Printf("VERIF-PANIC %v\n", r)
				panic(r)
			}
		}()
		h()
	}()
	for _, f := range verifFailed {
		fmt.Printf("VERIF-ASSERT-FAILED %s\n", f)
	}
	if len(verifFailed) > 0 {
		t.Fatalf("assertions failed: %v", verifFailed)
	}
}

func verifNext(kind string) string {
	if verifSweepOn {
		r := verifRand()
		switch kind {
		case "bool":
			if r&1 == 1 {
				return "true"
			}
			return "false"
		case "string":
			n := int(r>>8) % 3
			b := make([]byte, n)
			for i := range b {
				b[i] = byte(0x20 + verifRand()%0x5f)
			}
			return string(b)
		case "byte":
			return strconv.FormatUint(r%128, 10)
		}
		// integers: boundary-biased
		switch r % 8 {
		case 0:
			return "0"
		case 1:
			return "1"
		case 2:
			return "127"
		case 3:
			return "128"
		case 4:
			return strconv.FormatUint(^uint64(0), 10)
		case 5:
			return strconv.FormatUint(1<<63, 10)
		}
		return strconv.FormatUint(verifRand()>>(verifRand()%64), 10)
	}
	for verifReplayPos < len(verifReplay.Nondet) {
		r := verifReplay.Nondet[verifReplayPos]
		verifReplayPos++
		if r.Kind == kind {
			return r.Value
		}
		// kinds out of step: the native run took a different path (map order); give up on this run
		panic("verif-assume-false")
	}
	// beyond the recorded prefix: default values
	switch kind {
	case "bool":
		return "false"
	case "string":
		return ""
	}
	return "0"
}

func nondetBool() bool { return verifNext("bool") == "true" }
func nondetInt64() int64 {
	u, _ := strconv.ParseUint(verifNext("int64"), 10, 64)
	return int64(u)
}
func nondetInt() int { return int(nondetInt64()) }
func nondetUint64() uint64 {
	u, _ := strconv.ParseUint(verifNext("uint64"), 10, 64)
	return u
}
func nondetInt32() int32 {
	u, _ := strconv.ParseUint(verifNext("int32"), 10, 64)
	return int32(uint32(u))
}
func nondetUint32() uint32 {
	u, _ := strconv.ParseUint(verifNext("uint32"), 10, 64)
	return uint32(u)
}
func nondetByte() byte {
	u, _ := strconv.ParseUint(verifNext("byte"), 10, 64)
	return byte(u)
}
func nondetString() string { return verifNext("string") }

// choose returns an arbitrary value in [0,n): a concrete fork under symgo.
func choose(n int) int {
	if verifSweepOn {
		return int(verifRand() % uint64(n))
	}
	u, _ := strconv.ParseUint(verifNext("choose"), 10, 64)
	if int(u) >= n {
		return 0
	}
	return int(u)
}

// instance returns the instance index this run was started with.
func instance() int { return verifReplay.Instance }

func assume(ok bool) {
	if !ok {
		panic("verif-assume-false")
	}
}

func vassert(ok bool, label string) {
	if !ok {
		verifFailed = append(verifFailed, label)
	}
}

func cover(label string)              {}
func shape(label string)              {}
func observe(tag string, v interface{}) {}
func symbolicMode() bool              { return false }

// Non-forking boolean connectives: under symgo these build one solver term instead of
// splitting the path the way Go's && and || do.
func band(a, b bool) bool { return a && b }
func bor(a, b bool) bool  { return a || b }
func bnot(a bool) bool    { return !a }
func bimp(a, b bool) bool { return !a || b }

// coverIf marks the witness as reached when cond is satisfiable on this path (no fork).
func coverIf(cond bool, label string) {}

// ifStr / ifInt: term-level conditional without forking.
func ifStr(c bool, a, b string) string {
	if c {
		return a
	}
	return b
}
func ifInt(c bool, a, b int64) int64 {
	if c {
		return a
	}
	return b
}

// trimDash returns k without one leading '-' (no fork under symgo).
func trimDash(k string) string {
	if len(k) > 0 && k[0] == '-' {
		return k[1:]
	}
	return k
}

// hasDash reports whether k starts with '-'.
func hasDash(k string) bool { return len(k) > 0 && k[0] == '-' }

// containsEq reports whether s contains '='.
func containsEq(s string) bool { return strings.Contains(s, "=") }

// disjointHeap reports whether the mutable objects (pointees, map and slice storage) reachable from a
// and from b are disjoint. Under symgo it is answered from the engine's heap; natively by reflection.
func disjointHeap(a, b interface{}) bool {
	sa, sb := map[uintptr]bool{}, map[uintptr]bool{}
	verifReach(reflect.ValueOf(a), sa, 0)
	verifReach(reflect.ValueOf(b), sb, 0)
	for k := range sa {
		if sb[k] {
			return false
		}
	}
	return true
}

func verifReach(v reflect.Value, seen map[uintptr]bool, depth int) {
	if !v.IsValid() || depth > 12 {
		return
	}
	switch v.Kind() {
	case reflect.Ptr:
		if v.IsNil() || seen[v.Pointer()] {
			return
		}
		seen[v.Pointer()] = true
		verifReach(v.Elem(), seen, depth+1)
	case reflect.Interface:
		if !v.IsNil() {
			verifReach(v.Elem(), seen, depth+1)
		}
	case reflect.Struct:
		for i := 0; i < v.NumField(); i++ {
			f := v.Type().Field(i)
			if f.PkgPath != "" {
				continue // unexported (protobuf internals)
			}
			verifReach(v.Field(i), seen, depth+1)
		}
	case reflect.Slice:
		if v.IsNil() || v.Len() == 0 {
			return
		}
		seen[v.Pointer()] = true
		for i := 0; i < v.Len(); i++ {
			verifReach(v.Index(i), seen, depth+1)
		}
	case reflect.Map:
		if v.IsNil() {
			return
		}
		seen[v.Pointer()] = true
		for _, k := range v.MapKeys() {
			verifReach(v.MapIndex(k), seen, depth+1)
		}
	}
}

// envKeyOf / envValOf split "K=v" at the first '=' (no fork under symgo; callers check containsEq).
func envKeyOf(s string) string {
	if i := strings.Index(s, "="); i >= 0 {
		return s[:i]
	}
	return s
}
func envValOf(s string) string {
	if i := strings.Index(s, "="); i >= 0 {
		return s[i+1:]
	}
	return ""
}

// hasPrefixStr is strings.HasPrefix (term-level under symgo).
func hasPrefixStr(s, prefix string) bool { return strings.HasPrefix(s, prefix) }

// verifNoop is used by the engine as the body of context cancel functions.
func verifNoop() {}

// ctxTimeoutCount: number of context.WithTimeout calls made so far (engine ghost state; natively unknown).
func ctxTimeoutCount() int { return -1 }

// ctxTimeoutNs: the duration handed to the innermost context.WithTimeout the context descends from, -1 when
// there is none (engine ghost state). Natively: the time left until the deadline, rounded to 100 ms.
func ctxTimeoutNs(ctx context.Context) int64 {
	dl, ok := ctx.Deadline()
	if !ok {
		return -1
	}
	return int64(time.Until(dl).Round(100 * time.Millisecond))
}

// timerCount / timerNs: the time.After calls made so far and their durations (engine ghost state; natively
// unknown: no timer is reported).
func timerCount() int      { return 0 }
func timerNs(i int) int64 { return -1 }

// heldByMe reports whether the calling goroutine holds the mutex (engine ghost state; natively permissive).
func heldByMe(mu interface{}) bool { return true }

// atoiStr: decimal value of a digit string (-1 when not all digits), as the SMT str.to_int.
func atoiStr(s string) int {
	n, err := strconv.Atoi(s)
	if err != nil || n < 0 {
		return -1
	}
	return n
}

// sameObject: a and b are the very same pointer / slice (same backing array and length) / map.
func sameObject(a, b interface{}) bool {
	va, vb := reflect.ValueOf(a), reflect.ValueOf(b)
	if !va.IsValid() || !vb.IsValid() {
		return !va.IsValid() && !vb.IsValid()
	}
	if va.Kind() != vb.Kind() {
		return false
	}
	switch va.Kind() {
	case reflect.Ptr, reflect.Map:
		return va.Pointer() == vb.Pointer()
	case reflect.Slice:
		return va.Len() == vb.Len() && (va.Len() == 0 && va.IsNil() == vb.IsNil() || va.Len() > 0 && va.Pointer() == vb.Pointer())
	}
	return reflect.DeepEqual(a, b)
}

// strLen is len(s) (kept in the integer theory under symgo).
func strLen(s string) int { return len(s) }

// Environment call log (engine ghost state): OS-boundary calls such as os.MkdirAll are recorded with their
// arguments instead of being executed. Natively nothing is recorded (the real calls run).
func envLogCount(name string) int                   { return 0 }
func envLogStr(name string, call, arg int) string   { return "" }
func envLogInt(name string, call, arg int) int64    { return 0 }
func envSetResult(name string, fail bool)           {}

// containsSlash reports whether s contains '/'.
func containsSlash(s string) bool { return strings.Contains(s, "/") }

// nondetBytes returns a byte slice of length n with arbitrary content (symbolic memory under symgo).
func nondetBytes(n int) []byte {
	if n < 0 || n > 1<<26 {
		return nil
	}
	return make([]byte, n)
}

// lockHeld / readLockHeld: engine ghost state of a sync.Mutex / sync.RWMutex (natively permissive).
func lockHeld(mu interface{}) bool     { return false }
func readLockHeld(mu interface{}) bool { return false }
