package api

// C15 (pkg/api/event.go side): the textual way a plugin names the subset of events it asks for at
// configuration time. ParseEventMask must turn every documented spelling into exactly the events it names:
// a single event name into its own bit, the aliases "pod"/"podsandbox", "container" and "all" into exactly
// the pod, container and all events, a comma list or several arguments into the union, and an unknown name
// into an error. The reference masks are written out here, independently of the parser's name table.

var c15Names = [...]string{
	"runpodsandbox", "updatepodsandbox", "postupdatepodsandbox", "stoppodsandbox", "removepodsandbox",
	"createcontainer", "postcreatecontainer", "startcontainer", "poststartcontainer", "updatecontainer",
	"postupdatecontainer", "stopcontainer", "removecontainer",
	"pod", "podsandbox", "container", "all", "PoD", "Container", "nosuchevent", "",
}

func c15PodMask() EventMask {
	return 1<<(Event_RUN_POD_SANDBOX-1) | 1<<(Event_UPDATE_POD_SANDBOX-1) | 1<<(Event_POST_UPDATE_POD_SANDBOX-1) |
		1<<(Event_STOP_POD_SANDBOX-1) | 1<<(Event_REMOVE_POD_SANDBOX-1)
}

func c15CtrMask() EventMask {
	return 1<<(Event_CREATE_CONTAINER-1) | 1<<(Event_POST_CREATE_CONTAINER-1) | 1<<(Event_START_CONTAINER-1) |
		1<<(Event_POST_START_CONTAINER-1) | 1<<(Event_UPDATE_CONTAINER-1) | 1<<(Event_POST_UPDATE_CONTAINER-1) |
		1<<(Event_STOP_CONTAINER-1) | 1<<(Event_REMOVE_CONTAINER-1)
}

// c15Want: reference meaning of name i; ok=false for a name that must be rejected.
func c15Want(i int) (EventMask, bool) {
	evs := [...]Event{
		Event_RUN_POD_SANDBOX, Event_UPDATE_POD_SANDBOX, Event_POST_UPDATE_POD_SANDBOX, Event_STOP_POD_SANDBOX,
		Event_REMOVE_POD_SANDBOX, Event_CREATE_CONTAINER, Event_POST_CREATE_CONTAINER, Event_START_CONTAINER,
		Event_POST_START_CONTAINER, Event_UPDATE_CONTAINER, Event_POST_UPDATE_CONTAINER, Event_STOP_CONTAINER,
		Event_REMOVE_CONTAINER,
	}
	switch {
	case i < 13:
		return 1 << (evs[i] - 1), true
	case i == 13, i == 14, i == 17:
		return c15PodMask(), true
	case i == 15, i == 18:
		return c15CtrMask(), true
	case i == 16:
		return c15PodMask() | c15CtrMask(), true
	}
	return 0, false
}

// H_C15_parse_mask: instance = first name; the second name and the way the two are combined (alone, comma
// list, two arguments) are chosen by the solver.
//verif:property C15
//verif:instances 21
//verif:expect-cover parsed rejected
func H_C15_parse_mask() {
	i := instance()
	shape("name=" + c15Names[i])
	w1, ok1 := c15Want(i)
	var m EventMask
	var err error
	want, ok := w1, ok1
	switch choose(3) {
	case 0:
		m, err = ParseEventMask(c15Names[i])
	case 1:
		j := choose(len(c15Names))
		w2, ok2 := c15Want(j)
		want, ok = w1|w2, band(ok1, ok2)
		m, err = ParseEventMask(c15Names[i] + "," + c15Names[j])
	default:
		j := choose(len(c15Names))
		w2, ok2 := c15Want(j)
		want, ok = w1|w2, band(ok1, ok2)
		m, err = ParseEventMask(c15Names[i], c15Names[j])
	}
	if !ok {
		vassert(err != nil, "unknown-event-name-accepted")
		cover("rejected")
		return
	}
	cover("parsed")
	vassert(err == nil, "event-name-rejected")
	vassert(m == want, "parsed-mask-is-not-what-the-names-say")
	vassert(m&^ValidEvents == 0, "parsed-mask-outside-valid-events")
}
