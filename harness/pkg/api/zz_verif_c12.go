package api

// C12: both wire encodings of every protocol message agree.
// Decided by the solver: for every message type and field, with the field symbolic over its full domain
// (strings of <=2 arbitrary ASCII bytes, repeated <=2, one map entry, nested messages present-empty or with
// one symbolic field): len(MarshalVT) == SizeVT; MarshalVT bytes == a reference proto3 encoding generated
// from the struct tags of the current api.pb.go (ascending field numbers, canonical varints);
// UnmarshalVT(MarshalVT(m)) == m and UnmarshalVT(reference(m)) == m incl. nil vs present-empty.
// The reflection codec itself cannot be executed symbolically: its agreement with the reference encoding
// is checked natively (c12Native) when a path is replayed.

import (
	"bytes"

	"google.golang.org/protobuf/proto"
)

// c12Str: a string of 0..2 arbitrary ASCII bytes (built from bytes so that no string theory is involved).
func c12Str() string {
	switch choose(3) {
	case 0:
		return ""
	case 1:
		return string([]byte{c12Byte()})
	}
	return string([]byte{c12Byte(), c12Byte()})
}

// c12SubField: which field of a nested message is made symbolic: the first one (quick), or any (thorough;
// every field of every message is also covered by that message's own cases).
var c12AllSubFields bool

func c12SubField(n int) int {
	if c12AllSubFields {
		return choose(n)
	}
	return 0
}

func c12Byte() byte {
	b := nondetByte()
	assume(b < 0x80)
	return b
}

func refVarint(b []byte, v uint64) []byte {
	for v >= 0x80 {
		b = append(b, byte(v)|0x80)
		v >>= 7
	}
	return append(b, byte(v))
}

func refTag(b []byte, num int, wt int) []byte { return refVarint(b, uint64(num<<3|wt)) }

func refStringAlways(b []byte, num int, s string) []byte {
	b = refTag(b, num, 2)
	b = refVarint(b, uint64(len(s)))
	return append(b, s...)
}

func refString(b []byte, num int, s string) []byte { return refStringAlways(b, num, s) }

func refBytes(b []byte, num int, sub []byte) []byte {
	b = refTag(b, num, 2)
	b = refVarint(b, uint64(len(sub)))
	return append(b, sub...)
}

func c12SameBytes(got, ref []byte) {
	vassert(len(got) == len(ref), "encoding-length-differs-from-reference")
	if len(got) != len(ref) {
		return
	}
	for i := range got {
		vassert(got[i] == ref[i], "encoding-differs-from-reference")
	}
}

// c12Native: natively (replay / self-test) the reflection-based codec must produce the reference bytes and
// decode them to an equal message. Under symgo this is skipped (reflection is not encodable).
func c12Native(m interface{}, ref []byte, mk func() interface{}) {
	if symbolicMode() {
		return
	}
	pm, ok := m.(proto.Message)
	if !ok {
		return
	}
	b, err := proto.MarshalOptions{Deterministic: true}.Marshal(pm)
	vassert(err == nil, "reflection-marshal-error")
	vassert(bytes.Equal(b, ref), "reflection-encoding-differs-from-reference")
	m2 := mk().(proto.Message)
	vassert(proto.Unmarshal(ref, m2) == nil, "reflection-unmarshal-error")
	vassert(proto.Equal(pm, m2), "reflection-roundtrip")
}

// H_C12_fields: instance = (message type, field).
//verif:property C12
//verif:instances 163
//verif:tier quick
//verif:native-sweep 4
//verif:expect-cover done
func H_C12_fields() {
	i := instance()
	if i >= c12NumCases {
		cover("done")
		return
	}
	shape(c12CaseNames[i])
	c12Case(i)
	cover("done")
}

// H_C12_empty: the empty message of every type encodes to zero bytes and decodes from them.
//verif:property C12
//verif:expect-cover done
func H_C12_empty() {
	for i := 0; i < c12NumTypes; i++ {
		vassert(c12Empty(i), "empty-message")
	}
	cover("done")
}

// H_C12_fields_deep: as H_C12_fields with every field of nested messages made symbolic in turn.
//verif:property C12
//verif:instances 163
//verif:tier thorough
//verif:expect-cover done
func H_C12_fields_deep() {
	c12AllSubFields = true
	i := instance()
	if i >= c12NumCases {
		cover("done")
		return
	}
	shape(c12CaseNames[i])
	c12Case(i)
	cover("done")
}
