package api

// C14: NRI/OCI conversions are lossless and copies share no state.

import (
	"os"

	rspec "github.com/opencontainers/runtime-spec/specs-go"
)

// presence pattern over n optional fields: all / none / exactly one / all but one
func presencePattern(n int) []bool {
	p := make([]bool, n)
	switch choose(4) {
	case 0:
		shape("all")
		for i := range p {
			p[i] = true
		}
	case 1:
		shape("none")
	case 2:
		shape("one")
		p[choose(n)] = true
	case 3:
		shape("allbutone")
		for i := range p {
			p[i] = true
		}
		p[choose(n)] = false
	}
	return p
}

func symI64(present bool) *OptionalInt64 {
	if !present {
		return nil
	}
	return &OptionalInt64{Value: nondetInt64()}
}
func symU64(present bool) *OptionalUInt64 {
	if !present {
		return nil
	}
	return &OptionalUInt64{Value: nondetUint64()}
}
func symB(present bool) *OptionalBool {
	if !present {
		return nil
	}
	return &OptionalBool{Value: nondetBool()}
}

func eqOptI64(a, b *OptionalInt64) bool {
	if a == nil || b == nil {
		return a == nil && b == nil
	}
	return a.Value == b.Value
}
func eqOptU64(a, b *OptionalUInt64) bool {
	if a == nil || b == nil {
		return a == nil && b == nil
	}
	return a.Value == b.Value
}
func eqOptB(a, b *OptionalBool) bool {
	if a == nil || b == nil {
		return a == nil && b == nil
	}
	return a.Value == b.Value
}
func eqOptS(a, b *OptionalString) bool {
	if a == nil || b == nil {
		return a == nil && b == nil
	}
	return a.Value == b.Value
}

// symResources: a LinuxResources with the 13 optional scalars following a presence pattern.
func symResources(withClasses bool, scalars bool, collections bool) *LinuxResources {
	p := make([]bool, 13)
	if scalars {
		p = presencePattern(13)
	}
	r := &LinuxResources{}
	if nondetBool() || p[0] || p[1] || p[2] || p[3] || p[4] || p[5] || p[6] || p[7] {
		r.Memory = &LinuxMemory{Limit: symI64(p[0]), Reservation: symI64(p[1]), Swap: symI64(p[2]), Kernel: symI64(p[3]),
			KernelTcp: symI64(p[4]), Swappiness: symU64(p[5]), DisableOomKiller: symB(p[6]), UseHierarchy: symB(p[7])}
	}
	if nondetBool() || p[8] || p[9] || p[10] || p[11] || p[12] {
		r.Cpu = &LinuxCPU{Shares: symU64(p[8]), Quota: symI64(p[9]), Period: symU64(p[10]), RealtimeRuntime: symI64(p[11]),
			RealtimePeriod: symU64(p[12]), Cpus: nondetString(), Mems: nondetString()}
	}
	nh, nu := 0, 0
	if collections {
		nh, nu = choose(3), choose(3)
	}
	for i := 0; i < nh; i++ {
		r.HugepageLimits = append(r.HugepageLimits, &HugepageLimit{PageSize: nondetString(), Limit: nondetUint64()})
	}
	if nu > 0 {
		r.Unified = map[string]string{}
		for i := 0; i < nu; i++ {
			r.Unified[nondetString()] = nondetString()
		}
	}
	if collections && nondetBool() {
		r.Pids = &LinuxPids{Limit: nondetInt64()}
	}
	if withClasses && collections {
		if nondetBool() {
			r.BlockioClass = &OptionalString{Value: nondetString()}
		}
		if nondetBool() {
			r.RdtClass = &OptionalString{Value: nondetString()}
		}
	}
	return r
}

func assertMemEq(a, b *LinuxMemory, what string) {
	// nil and empty are both "no scalar set"
	if a == nil {
		a = &LinuxMemory{}
	}
	if b == nil {
		b = &LinuxMemory{}
	}
	vassert(eqOptI64(a.Limit, b.Limit), what+"-mem-limit")
	vassert(eqOptI64(a.Reservation, b.Reservation), what+"-mem-reservation")
	vassert(eqOptI64(a.Swap, b.Swap), what+"-mem-swap")
	vassert(eqOptI64(a.Kernel, b.Kernel), what+"-mem-kernel")
	vassert(eqOptI64(a.KernelTcp, b.KernelTcp), what+"-mem-kerneltcp")
	vassert(eqOptU64(a.Swappiness, b.Swappiness), what+"-mem-swappiness")
	vassert(eqOptB(a.DisableOomKiller, b.DisableOomKiller), what+"-mem-disableoom")
	vassert(eqOptB(a.UseHierarchy, b.UseHierarchy), what+"-mem-usehierarchy")
}

func assertCpuEq(a, b *LinuxCPU, what string) {
	if a == nil {
		a = &LinuxCPU{}
	}
	if b == nil {
		b = &LinuxCPU{}
	}
	vassert(eqOptU64(a.Shares, b.Shares), what+"-cpu-shares")
	vassert(eqOptI64(a.Quota, b.Quota), what+"-cpu-quota")
	vassert(eqOptU64(a.Period, b.Period), what+"-cpu-period")
	vassert(eqOptI64(a.RealtimeRuntime, b.RealtimeRuntime), what+"-cpu-rtruntime")
	vassert(eqOptU64(a.RealtimePeriod, b.RealtimePeriod), what+"-cpu-rtperiod")
	vassert(a.Cpus == b.Cpus, what+"-cpu-cpus")
	vassert(a.Mems == b.Mems, what+"-cpu-mems")
}

func assertResEq(a, b *LinuxResources, what string, classes bool) {
	vassert(a != nil && b != nil, what+"-nil")
	if a == nil || b == nil {
		return
	}
	assertMemEq(a.Memory, b.Memory, what)
	assertCpuEq(a.Cpu, b.Cpu, what)
	vassert(len(a.HugepageLimits) == len(b.HugepageLimits), what+"-hugepage-len")
	if len(a.HugepageLimits) == len(b.HugepageLimits) {
		for i := range a.HugepageLimits {
			vassert(a.HugepageLimits[i].PageSize == b.HugepageLimits[i].PageSize, what+"-hugepage-size")
			vassert(a.HugepageLimits[i].Limit == b.HugepageLimits[i].Limit, what+"-hugepage-limit")
		}
	}
	vassert(len(a.Unified) == len(b.Unified), what+"-unified-len")
	for k, v := range a.Unified {
		w, ok := b.Unified[k]
		vassert(ok, what+"-unified-key")
		vassert(v == w, what+"-unified-value")
	}
	if a.Pids == nil || b.Pids == nil {
		vassert(a.Pids == nil && b.Pids == nil, what+"-pids-presence")
	} else {
		vassert(a.Pids.Limit == b.Pids.Limit, what+"-pids")
	}
	if classes {
		vassert(eqOptS(a.BlockioClass, b.BlockioClass), what+"-blockio")
		vassert(eqOptS(a.RdtClass, b.RdtClass), what+"-rdt")
	}
}

// H_C14_resources_roundtrip: NRI -> OCI -> NRI keeps every field both sides carry.
//verif:property C14
//verif:expect-cover done
func H_C14_resources_roundtrip() {
	part := choose(2)
	r := symResources(false, part == 0, part == 1)
	nd := 0
	if part == 1 {
		nd = choose(3)
	}
	for i := 0; i < nd; i++ {
		d := &LinuxDeviceCgroup{Allow: nondetBool(), Type: nondetString(), Access: nondetString()}
		if nondetBool() {
			d.Major = &OptionalInt64{Value: nondetInt64()}
		}
		if nondetBool() {
			d.Minor = &OptionalInt64{Value: nondetInt64()}
		}
		r.Devices = append(r.Devices, d)
	}
	o := r.ToOCI()
	back := FromOCILinuxResources(o, nil)
	assertResEq(r, back, "rt", false)
	vassert(len(back.Devices) == len(r.Devices), "rt-devices-len")
	if len(back.Devices) == len(r.Devices) {
		for i := range r.Devices {
			a, b := r.Devices[i], back.Devices[i]
			vassert(a.Allow == b.Allow, "rt-dev-allow")
			vassert(a.Type == b.Type, "rt-dev-type")
			vassert(a.Access == b.Access, "rt-dev-access")
			vassert(eqOptI64(a.Major, b.Major), "rt-dev-major")
			vassert(eqOptI64(a.Minor, b.Minor), "rt-dev-minor")
		}
	}
	cover("done")
}

func pI64(present bool) *int64 {
	if !present {
		return nil
	}
	v := nondetInt64()
	return &v
}
func pU64(present bool) *uint64 {
	if !present {
		return nil
	}
	v := nondetUint64()
	return &v
}
func pB(present bool) *bool {
	if !present {
		return nil
	}
	v := nondetBool()
	return &v
}
func eqPI64(a, b *int64) bool {
	if a == nil || b == nil {
		return a == nil && b == nil
	}
	return *a == *b
}
func eqPU64(a, b *uint64) bool {
	if a == nil || b == nil {
		return a == nil && b == nil
	}
	return *a == *b
}
func eqPB(a, b *bool) bool {
	if a == nil || b == nil {
		return a == nil && b == nil
	}
	return *a == *b
}

// H_C14_resources_oci_roundtrip: OCI -> NRI -> OCI keeps every field both sides carry.
//verif:property C14
//verif:expect-cover done
func H_C14_resources_oci_roundtrip() {
	p := presencePattern(13)
	o := &rspec.LinuxResources{}
	o.Memory = &rspec.LinuxMemory{Limit: pI64(p[0]), Reservation: pI64(p[1]), Swap: pI64(p[2]), Kernel: pI64(p[3]), KernelTCP: pI64(p[4]),
		Swappiness: pU64(p[5]), DisableOOMKiller: pB(p[6]), UseHierarchy: pB(p[7])}
	o.CPU = &rspec.LinuxCPU{Shares: pU64(p[8]), Quota: pI64(p[9]), Period: pU64(p[10]), RealtimeRuntime: pI64(p[11]), RealtimePeriod: pU64(p[12]),
		Cpus: nondetString(), Mems: nondetString()}
	nh := choose(3)
	for i := 0; i < nh; i++ {
		o.HugepageLimits = append(o.HugepageLimits, rspec.LinuxHugepageLimit{Pagesize: nondetString(), Limit: nondetUint64()})
	}
	if nondetBool() {
		o.Pids = &rspec.LinuxPids{Limit: nondetInt64()}
	}
	if nondetBool() {
		o.Unified = map[string]string{nondetString(): nondetString()}
	}
	nd := choose(2)
	for i := 0; i < nd; i++ {
		o.Devices = append(o.Devices, rspec.LinuxDeviceCgroup{Allow: nondetBool(), Type: nondetString(), Major: pI64(nondetBool()), Minor: pI64(nondetBool()), Access: nondetString()})
	}
	b := FromOCILinuxResources(o, nil).ToOCI()
	vassert(b != nil && b.Memory != nil && b.CPU != nil, "oci-nil")
	if b == nil || b.Memory == nil || b.CPU == nil {
		return
	}
	vassert(eqPI64(o.Memory.Limit, b.Memory.Limit), "oci-mem-limit")
	vassert(eqPI64(o.Memory.Reservation, b.Memory.Reservation), "oci-mem-reservation")
	vassert(eqPI64(o.Memory.Swap, b.Memory.Swap), "oci-mem-swap")
	vassert(eqPI64(o.Memory.Kernel, b.Memory.Kernel), "oci-mem-kernel")
	vassert(eqPI64(o.Memory.KernelTCP, b.Memory.KernelTCP), "oci-mem-kerneltcp")
	vassert(eqPU64(o.Memory.Swappiness, b.Memory.Swappiness), "oci-mem-swappiness")
	vassert(eqPB(o.Memory.DisableOOMKiller, b.Memory.DisableOOMKiller), "oci-mem-disableoom")
	vassert(eqPB(o.Memory.UseHierarchy, b.Memory.UseHierarchy), "oci-mem-usehierarchy")
	vassert(eqPU64(o.CPU.Shares, b.CPU.Shares), "oci-cpu-shares")
	vassert(eqPI64(o.CPU.Quota, b.CPU.Quota), "oci-cpu-quota")
	vassert(eqPU64(o.CPU.Period, b.CPU.Period), "oci-cpu-period")
	vassert(eqPI64(o.CPU.RealtimeRuntime, b.CPU.RealtimeRuntime), "oci-cpu-rtruntime")
	vassert(eqPU64(o.CPU.RealtimePeriod, b.CPU.RealtimePeriod), "oci-cpu-rtperiod")
	vassert(o.CPU.Cpus == b.CPU.Cpus, "oci-cpu-cpus")
	vassert(o.CPU.Mems == b.CPU.Mems, "oci-cpu-mems")
	vassert(len(o.HugepageLimits) == len(b.HugepageLimits), "oci-hugepage-len")
	if len(o.HugepageLimits) == len(b.HugepageLimits) {
		for i := range o.HugepageLimits {
			vassert(o.HugepageLimits[i] == b.HugepageLimits[i], "oci-hugepage")
		}
	}
	if o.Pids == nil || b.Pids == nil {
		vassert(o.Pids == nil && b.Pids == nil, "oci-pids-presence")
	} else {
		vassert(o.Pids.Limit == b.Pids.Limit, "oci-pids")
	}
	vassert(len(o.Unified) == len(b.Unified), "oci-unified-len")
	for k, v := range o.Unified {
		vassert(b.Unified[k] == v, "oci-unified")
	}
	vassert(len(o.Devices) == len(b.Devices), "oci-devices-len")
	if len(o.Devices) == len(b.Devices) {
		for i := range o.Devices {
			x, y := o.Devices[i], b.Devices[i]
			vassert(x.Allow == y.Allow && x.Type == y.Type && x.Access == y.Access, "oci-dev-fields")
			vassert(eqPI64(x.Major, y.Major), "oci-dev-major")
			vassert(eqPI64(x.Minor, y.Minor), "oci-dev-minor")
		}
	}
	cover("done")
}

// H_C14_copy: Copy() yields equal memory, CPU, hugepage, unified, pids and class fields and shares
// no mutable state with the original.
//verif:property C14
//verif:expect-cover done
func H_C14_copy() {
	part := choose(2)
	r := symResources(true, part == 0, part == 1)
	c := r.Copy()
	assertResEq(r, c, "copy", true)
	vassert(disjointHeap(r, c), "copy-shares-state")
	var n *LinuxResources
	vassert(n.Copy() == nil, "copy-nil")
	cover("done")
}

// H_C14_mounts: mounts OCI -> NRI -> OCI and NRI -> OCI -> NRI.
//verif:property C14
//verif:expect-cover done
func H_C14_mounts() {
	n := choose(3)
	var o []rspec.Mount
	for i := 0; i < n; i++ {
		m := rspec.Mount{Destination: nondetString(), Type: nondetString(), Source: nondetString()}
		no := choose(3)
		for j := 0; j < no; j++ {
			m.Options = append(m.Options, nondetString())
		}
		o = append(o, m)
	}
	ms := FromOCIMounts(o)
	vassert(len(ms) == len(o), "mounts-len")
	if len(ms) != len(o) {
		return
	}
	for i, m := range ms {
		b := m.ToOCI(nil)
		vassert(b.Destination == o[i].Destination, "mount-destination")
		vassert(b.Type == o[i].Type, "mount-type")
		vassert(b.Source == o[i].Source, "mount-source")
		vassert(len(b.Options) == len(o[i].Options), "mount-options-len")
		if len(b.Options) == len(o[i].Options) {
			for j := range b.Options {
				vassert(b.Options[j] == o[i].Options[j], "mount-option")
			}
		}
		// NRI -> OCI -> NRI
		back := FromOCIMounts([]rspec.Mount{b})
		vassert(len(back) == 1, "mount-back-len")
		if len(back) == 1 {
			vassert(back[0].Destination == m.Destination && back[0].Type == m.Type && back[0].Source == m.Source, "mount-back-fields")
			vassert(len(back[0].Options) == len(m.Options), "mount-back-options")
		}
	}
	cover("done")
}

// H_C14_devices: devices OCI <-> NRI incl. optional mode/uid/gid (unset vs zero).
//verif:property C14
//verif:expect-cover done
func H_C14_devices() {
	d := rspec.LinuxDevice{Path: nondetString(), Type: nondetString(), Major: nondetInt64(), Minor: nondetInt64()}
	if nondetBool() {
		m := os.FileMode(nondetUint32())
		d.FileMode = &m
	}
	if nondetBool() {
		u := nondetUint32()
		d.UID = &u
	}
	if nondetBool() {
		g := nondetUint32()
		d.GID = &g
	}
	ds := FromOCILinuxDevices([]rspec.LinuxDevice{d})
	vassert(len(ds) == 1, "devices-len")
	if len(ds) != 1 {
		return
	}
	b := ds[0].ToOCI()
	vassert(b.Path == d.Path && b.Type == d.Type && b.Major == d.Major && b.Minor == d.Minor, "device-fields")
	if d.FileMode == nil || b.FileMode == nil {
		vassert(d.FileMode == nil && b.FileMode == nil, "device-mode-presence")
	} else {
		vassert(*d.FileMode == *b.FileMode, "device-mode")
	}
	if d.UID == nil || b.UID == nil {
		vassert(d.UID == nil && b.UID == nil, "device-uid-presence")
	} else {
		vassert(*d.UID == *b.UID, "device-uid")
	}
	if d.GID == nil || b.GID == nil {
		vassert(d.GID == nil && b.GID == nil, "device-gid-presence")
	} else {
		vassert(*d.GID == *b.GID, "device-gid")
	}
	// NRI -> OCI -> NRI
	back := FromOCILinuxDevices([]rspec.LinuxDevice{b})
	x, y := ds[0], back[0]
	vassert(x.Path == y.Path && x.Type == y.Type && x.Major == y.Major && x.Minor == y.Minor, "device-back-fields")
	vassert((x.FileMode == nil) == (y.FileMode == nil) && (x.Uid == nil) == (y.Uid == nil) && (x.Gid == nil) == (y.Gid == nil), "device-back-presence")
	if x.FileMode != nil && y.FileMode != nil {
		vassert(x.FileMode.Value == y.FileMode.Value, "device-back-mode")
	}
	cover("done")
}

// H_C14_hooks: hooks OCI <-> NRI incl. optional timeout.
//verif:property C14
//verif:expect-cover done
func H_C14_hooks() {
	h := rspec.Hook{Path: nondetString()}
	na := choose(3)
	for i := 0; i < na; i++ {
		h.Args = append(h.Args, nondetString())
	}
	ne := choose(3)
	for i := 0; i < ne; i++ {
		h.Env = append(h.Env, nondetString())
	}
	if nondetBool() {
		t := nondetInt()
		h.Timeout = &t
	}
	which := choose(6)
	o := &rspec.Hooks{}
	switch which {
	case 0:
		o.Prestart = []rspec.Hook{h}
	case 1:
		o.CreateRuntime = []rspec.Hook{h}
	case 2:
		o.CreateContainer = []rspec.Hook{h}
	case 3:
		o.StartContainer = []rspec.Hook{h}
	case 4:
		o.Poststart = []rspec.Hook{h}
	case 5:
		o.Poststop = []rspec.Hook{h}
	}
	n := FromOCIHooks(o)
	vassert(n != nil, "hooks-nil")
	if n == nil {
		return
	}
	lists := [][]*Hook{n.Prestart, n.CreateRuntime, n.CreateContainer, n.StartContainer, n.Poststart, n.Poststop}
	for i, l := range lists {
		if i == which {
			vassert(len(l) == 1, "hooks-stage")
		} else {
			vassert(len(l) == 0, "hooks-wrong-stage")
		}
	}
	if len(lists[which]) != 1 {
		return
	}
	b := lists[which][0].ToOCI()
	vassert(b.Path == h.Path, "hook-path")
	vassert(len(b.Args) == len(h.Args) && len(b.Env) == len(h.Env), "hook-lens")
	if len(b.Args) == len(h.Args) {
		for i := range b.Args {
			vassert(b.Args[i] == h.Args[i], "hook-arg")
		}
	}
	if len(b.Env) == len(h.Env) {
		for i := range b.Env {
			vassert(b.Env[i] == h.Env[i], "hook-env")
		}
	}
	if h.Timeout == nil || b.Timeout == nil {
		vassert(h.Timeout == nil && b.Timeout == nil, "hook-timeout-presence")
	} else {
		vassert(*h.Timeout == *b.Timeout, "hook-timeout")
	}
	vassert(FromOCIHooks(nil) == nil, "hooks-from-nil")
	cover("done")
}

// H_C14_env: FromOCIEnv(e.ToOCI()) returns (key, value) for every key without '='.
//verif:property C14
//verif:expect-cover done
func H_C14_env() {
	k, v := nondetString(), nondetString()
	assume(bnot(containsEq(k)))
	e := &KeyValue{Key: k, Value: v}
	back := FromOCIEnv([]string{e.ToOCI()})
	vassert(len(back) == 1, "env-len")
	if len(back) == 1 {
		vassert(back[0].Key == k, "env-key")
		vassert(back[0].Value == v, "env-value")
	}
	vassert(FromOCIEnv(nil) == nil, "env-nil")
	cover("done")
}

// H_C14_optional: constructors map nil to unset and a value to exactly that value.
//verif:property C14
//verif:expect-cover done
func H_C14_optional() {
	{
		v := nondetString()
		var np *string
		var no *OptionalString
		vassert(String(np) == nil && String(no) == nil, "string-nil")
		a, b, c := String(v), String(&v), String(&OptionalString{Value: v})
		vassert(a != nil && b != nil && c != nil, "string-set")
		if a != nil && b != nil && c != nil {
			vassert(a.Value == v && b.Value == v && c.Value == v, "string-value")
			vassert(*a.Get() == v, "string-get")
		}
		vassert(no.Get() == nil, "string-get-nil")
	}
	{
		v := nondetInt64()
		var np *int64
		var no *OptionalInt64
		vassert(Int64(np) == nil && Int64(no) == nil, "int64-nil")
		a, b, c := Int64(v), Int64(&v), Int64(&OptionalInt64{Value: v})
		vassert(a != nil && b != nil && c != nil, "int64-set")
		if a != nil && b != nil && c != nil {
			vassert(a.Value == v && b.Value == v && c.Value == v, "int64-value")
			vassert(*a.Get() == v, "int64-get")
		}
		vassert(no.Get() == nil, "int64-get-nil")
	}
	{
		v := nondetUint64()
		var np *uint64
		var no *OptionalUInt64
		vassert(UInt64(np) == nil && UInt64(no) == nil, "uint64-nil")
		a, b, c := UInt64(v), UInt64(&v), UInt64(&OptionalUInt64{Value: v})
		vassert(a != nil && b != nil && c != nil, "uint64-set")
		if a != nil && b != nil && c != nil {
			vassert(a.Value == v && b.Value == v && c.Value == v, "uint64-value")
			vassert(*a.Get() == v, "uint64-get")
		}
		vassert(no.Get() == nil, "uint64-get-nil")
	}
	{
		v := nondetInt32()
		var np *int32
		var no *OptionalInt32
		vassert(Int32(np) == nil && Int32(no) == nil, "int32-nil")
		a, b := Int32(v), Int32(&v)
		vassert(a != nil && b != nil, "int32-set")
		if a != nil && b != nil {
			vassert(a.Value == v && b.Value == v, "int32-value")
		}
		vassert(no.Get() == nil, "int32-get-nil")
	}
	{
		v := nondetUint32()
		var np *uint32
		var no *OptionalUInt32
		vassert(UInt32(np) == nil && UInt32(no) == nil, "uint32-nil")
		a, b := UInt32(v), UInt32(&v)
		vassert(a != nil && b != nil, "uint32-set")
		if a != nil && b != nil {
			vassert(a.Value == v && b.Value == v, "uint32-value")
		}
		vassert(no.Get() == nil, "uint32-get-nil")
	}
	{
		v := nondetInt()
		var np *int
		var no *OptionalInt
		vassert(Int(np) == nil && Int(no) == nil, "int-nil")
		a, b := Int(v), Int(&v)
		vassert(a != nil && b != nil, "int-set")
		if a != nil && b != nil {
			vassert(a.Value == int64(v) && b.Value == int64(v), "int-value")
			vassert(*a.Get() == v, "int-get")
		}
		vassert(no.Get() == nil, "int-get-nil")
	}
	{
		v := nondetBool()
		var np *bool
		var no *OptionalBool
		vassert(Bool(np) == nil && Bool(no) == nil, "bool-nil")
		a, b := Bool(v), Bool(&v)
		vassert(a != nil && b != nil, "bool-set")
		if a != nil && b != nil {
			vassert(a.Value == v && b.Value == v, "bool-value")
		}
		vassert(no.Get() == nil, "bool-get-nil")
	}
	{
		v := os.FileMode(nondetUint32())
		var np *os.FileMode
		var no *OptionalFileMode
		vassert(FileMode(np) == nil && FileMode(no) == nil, "filemode-nil")
		a, b := FileMode(v), FileMode(&v)
		vassert(a != nil && b != nil, "filemode-set")
		if a != nil && b != nil {
			vassert(a.Value == uint32(v) && b.Value == uint32(v), "filemode-value")
			vassert(*a.Get() == v, "filemode-get")
		}
		vassert(no.Get() == nil, "filemode-get-nil")
	}
	cover("done")
}

// H_C14_mask_roundtrip: parsing a printed event mask returns the same mask; the printer's loop forks per
// bit so that all 8191 valid non-empty masks are enumerated as complete paths (exhaustive enumeration, the
// solver only prunes), each with a concrete printed string pushed through the real parser.
//verif:property C14
//verif:expect-cover done
func H_C14_mask_roundtrip() {
	m := EventMask(nondetInt32())
	assume(m&^ValidEvents == 0)
	assume(m != 0)
	s := m.PrettyString()
	p, err := ParseEventMask(s)
	vassert(err == nil, "mask-parse-error")
	vassert(p == m, "mask-roundtrip")
	cover("done")
}
