package stub

// C15: the stub subscribes exactly the implemented events and dispatches faithfully.
// C19 (stub side): a stub without a runtime service reports ErrNoService.

import (
	"context"
	"errors"

	"github.com/containerd/nri/pkg/api"
)

func newStubFor(i int) (*stub, *rec, map[string]bool, error) {
	r := &rec{}
	p, impl := mkPlugin(i, r)
	st, err := New(p, WithPluginName("plugin"), WithPluginIdx("00"))
	if err != nil {
		return nil, r, impl, err
	}
	s := st.(*stub)
	s.cfgErrC = make(chan error, 1)
	return s, r, impl, nil
}

func implementedMask(impl map[string]bool) api.EventMask {
	var m api.EventMask
	for _, meth := range eventMethods {
		if impl[meth] {
			m |= 1 << (eventOf[meth] - 1)
		}
	}
	return m
}

// H_C15_subscription: instance = plugin type (all / each single handler / all but one).
//verif:property C15
//verif:instances 33
//verif:cut (*github.com/containerd/nri/pkg/api.EventMask).PrettyString => verifPretty
//verif:replay-with-cuts
//verif:expect-cover created
func H_C15_subscription() {
	i := instance()
	shape("type=" + plugTypeNames[i])
	s, r, impl, err := newStubFor(i)
	want := implementedMask(impl)
	if want == 0 {
		vassert(err != nil, "plugin-without-event-handlers-accepted")
		cover("created")
		return
	}
	vassert(err == nil, "plugin-rejected")
	if err != nil {
		return
	}
	cover("created")
	vassert(s.events == want, "subscription-mask")

	// configuration-time mask
	req := nondetInt32()
	r.mask = api.EventMask(req)
	var herr error
	if nondetBool() {
		herr = errors.New("configure failed")
		r.err = herr
	}
	rpl, cerr := s.Configure(context.Background(), &api.ConfigureRequest{Config: "cfg", RuntimeName: "rt", RuntimeVersion: "1"})
	r.err = nil
	if !impl["Configure"] {
		vassert(cerr == nil && rpl != nil, "configure-without-handler")
		if rpl != nil {
			vassert(api.EventMask(rpl.Events) == want, "default-subscription")
		}
		vassert(len(r.calls) == 0, "handler-called")
		return
	}
	vassert(len(r.calls) == 1 && r.calls[0].method == "Configure", "configure-dispatch")
	if len(r.calls) == 1 {
		vassert(r.calls[0].cfg == [3]string{"cfg", "rt", "1"}, "configure-arguments")
	}
	if herr != nil {
		vassert(cerr == herr && rpl == nil, "configure-error-not-returned")
		return
	}
	m := api.EventMask(req)
	if m&^want != 0 {
		vassert(cerr != nil, "unhandled-event-accepted")
		return
	}
	vassert(cerr == nil && rpl != nil, "valid-mask-rejected")
	if rpl != nil {
		if m == 0 {
			vassert(api.EventMask(rpl.Events) == want, "zero-mask-means-everything-implemented")
		} else {
			vassert(api.EventMask(rpl.Events) == m, "configured-mask")
		}
	}
	// a later (re)configuration - e.g. after a reconnect - may ask for any implemented event again
	<-s.cfgErrC
	r.mask = want
	rpl2, cerr2 := s.Configure(context.Background(), &api.ConfigureRequest{Config: "cfg", RuntimeName: "rt", RuntimeVersion: "1"})
	vassert(cerr2 == nil && rpl2 != nil, "reconfiguration-with-implemented-events-rejected")
	if rpl2 != nil {
		vassert(api.EventMask(rpl2.Events) == want, "reconfigured-mask")
	}
	vassert(s.events == want, "implemented-set-changed-by-configuration")
}

var stateEvents = [...]api.Event{api.Event_RUN_POD_SANDBOX, api.Event_POST_UPDATE_POD_SANDBOX, api.Event_STOP_POD_SANDBOX,
	api.Event_REMOVE_POD_SANDBOX, api.Event_POST_CREATE_CONTAINER, api.Event_START_CONTAINER, api.Event_POST_START_CONTAINER,
	api.Event_POST_UPDATE_CONTAINER, api.Event_REMOVE_CONTAINER}
var stateMethods = [...]string{"RunPodSandbox", "PostUpdatePodSandbox", "StopPodSandbox", "RemovePodSandbox", "PostCreateContainer",
	"StartContainer", "PostStartContainer", "PostUpdateContainer", "RemoveContainer"}

// H_C15_dispatch: every request / event is delivered once to the matching handler with the message's own
// objects; the handler's results come back unchanged. instance = plugin type; the request is chosen.
//verif:property C15
//verif:instances 33
//verif:cut (*github.com/containerd/nri/pkg/api.EventMask).PrettyString => verifPretty
//verif:replay-with-cuts
//verif:expect-cover dispatched
func H_C15_dispatch() {
	i := instance()
	shape("type=" + plugTypeNames[i])
	s, r, impl, err := newStubFor(i)
	if err != nil {
		return
	}
	pod, ctr := &api.PodSandbox{Id: nondetString()}, &api.Container{Id: nondetString()}
	res, over := &api.LinuxResources{}, &api.LinuxResources{}
	adj := &api.ContainerAdjustment{}
	upd := []*api.ContainerUpdate{{ContainerId: nondetString()}}
	var herr error
	if nondetBool() {
		herr = errors.New("handler failed")
	}
	r.adjust, r.update, r.err = adj, upd, herr
	ctx := context.Background()
	k := choose(15)
	method := ""
	var gotErr error
	var gotAdj *api.ContainerAdjustment
	var gotUpd []*api.ContainerUpdate
	hasUpd, hasAdj, hasPod, hasCtr, hasRes := false, false, true, true, false
	switch {
	case k < 9:
		method = stateMethods[k]
		hasCtr = k >= 4
		_, gotErr = s.StateChange(ctx, &api.StateChangeEvent{Event: stateEvents[k], Pod: pod, Container: ctr})
	case k == 9:
		method, hasAdj, hasUpd = "CreateContainer", true, true
		rpl, e := s.CreateContainer(ctx, &api.CreateContainerRequest{Pod: pod, Container: ctr})
		gotErr = e
		vassert(rpl != nil, "nil-response")
		if rpl != nil {
			gotAdj, gotUpd = rpl.Adjust, rpl.Update
		}
	case k == 10:
		method, hasUpd, hasRes = "UpdateContainer", true, true
		rpl, e := s.UpdateContainer(ctx, &api.UpdateContainerRequest{Pod: pod, Container: ctr, LinuxResources: res})
		gotErr = e
		vassert(rpl != nil, "nil-response")
		if rpl != nil {
			gotUpd = rpl.Update
		}
	case k == 11:
		method, hasUpd = "StopContainer", true
		rpl, e := s.StopContainer(ctx, &api.StopContainerRequest{Pod: pod, Container: ctr})
		gotErr = e
		vassert(rpl != nil, "nil-response")
		if rpl != nil {
			gotUpd = rpl.Update
		}
	case k == 12:
		method, hasCtr, hasRes = "UpdatePodSandbox", false, true
		_, gotErr = s.UpdatePodSandbox(ctx, &api.UpdatePodSandboxRequest{Pod: pod, OverheadLinuxResources: over, LinuxResources: res})
	case k == 13:
		method, hasPod, hasCtr = "Shutdown", false, false
		_, gotErr = s.Shutdown(ctx, &api.ShutdownRequest{})
		herr = nil // Shutdown handlers return nothing
	case k == 14:
		method, hasPod, hasCtr, hasUpd = "Synchronize", false, false, true
		rpl, e := s.Synchronize(ctx, &api.SynchronizeRequest{Pods: []*api.PodSandbox{pod}, Containers: []*api.Container{ctr}})
		gotErr = e
		vassert(rpl != nil, "nil-response")
		if rpl != nil {
			gotUpd = rpl.Update
		}
	}
	shape("req=" + method)
	cover("dispatched")
	if !impl[method] {
		vassert(len(r.calls) == 0, "handler-called-for-unimplemented-event")
		vassert(gotErr == nil, "error-without-handler")
		return
	}
	vassert(len(r.calls) == 1, "handler-not-called-exactly-once")
	if len(r.calls) != 1 {
		return
	}
	c := r.calls[0]
	vassert(c.method == method, "wrong-handler")
	if hasPod {
		vassert(c.pod == pod, "pod-argument")
	}
	if hasCtr {
		vassert(c.ctr == ctr, "container-argument")
	}
	if hasRes {
		vassert(c.res == res, "resources-argument")
	}
	if k == 12 {
		vassert(c.over == over, "overhead-resources-argument")
	}
	if k == 14 {
		vassert(len(c.pods) == 1 && c.pods[0] == pod && len(c.ctrs) == 1 && c.ctrs[0] == ctr, "synchronize-arguments")
	}
	vassert(gotErr == herr, "handler-error-changed")
	if hasAdj {
		vassert(gotAdj == adj, "adjustment-changed")
	}
	if hasUpd {
		vassert(sameObject(gotUpd, upd), "updates-changed")
	}
}

type envRuntime struct {
	calls  int
	got    []*api.ContainerUpdate
	failed []*api.ContainerUpdate
	err    error
	nilRpl bool
	deadline bool
}

func (e *envRuntime) RegisterPlugin(context.Context, *api.RegisterPluginRequest) (*api.Empty, error) {
	return &api.Empty{}, nil
}
func (e *envRuntime) UpdateContainers(ctx context.Context, req *api.UpdateContainersRequest) (*api.UpdateContainersResponse, error) {
	e.calls++
	_, e.deadline = ctx.Deadline()
	e.got = req.Update
	if e.nilRpl {
		return nil, e.err
	}
	return &api.UpdateContainersResponse{Failed: e.failed}, e.err
}

// H_C19_stub_side: Stub.UpdateContainers passes the updates to the runtime service once and returns its
// failed list / error unchanged; a stub that has not been started reports ErrNoService without blocking.
//verif:property C19
//verif:cut (*github.com/containerd/nri/pkg/api.EventMask).PrettyString => verifPretty
//verif:replay-with-cuts
//verif:expect-cover noservice relayed
func H_C19_stub_side() {
	s, _, _, err := newStubFor(0)
	if err != nil {
		return
	}
	upd := []*api.ContainerUpdate{{ContainerId: nondetString()}}
	if nondetBool() {
		cover("noservice")
		f, e := s.UpdateContainers(upd)
		vassert(f == nil && e == ErrNoService, "no-service-not-reported")
		return
	}
	rt := &envRuntime{failed: []*api.ContainerUpdate{{ContainerId: nondetString()}}}
	if nondetBool() {
		rt.err = errors.New("runtime says no")
	}
	rt.nilRpl = nondetBool()
	s.runtime = rt
	f, e := s.UpdateContainers(upd)
	cover("relayed")
	vassert(rt.calls == 1, "runtime-not-called-exactly-once")
	// the call waits for the runtime (which serialises it behind other requests): a plugin-side deadline could
	// replace the callback's result by a timeout error although the callback ran
	vassert(!rt.deadline, "ghost-update-call-bounded-by-a-deadline")
	vassert(sameObject(rt.got, upd), "updates-changed")
	vassert(e == rt.err, "error-changed")
	if rt.nilRpl {
		vassert(f == nil, "failed-list-invented")
	} else {
		vassert(sameObject(f, rt.failed), "failed-list-changed")
	}
}

// verifPretty replaces EventMask.PrettyString, whose result only flows into log and error text.
func verifPretty(m *api.EventMask) string { return "events" }

// H_C09_stale_sync: a split synchronization interrupted by a lost connection must not leak its collected
// chunks into the synchronization of the next session.
//verif:property C09
//verif:cut (*github.com/containerd/nri/pkg/api.EventMask).PrettyString => verifPretty
//verif:replay-with-cuts
//verif:expect-cover done
func H_C09_stale_sync() { staleSyncRun() }

// H_C16_restart_forgets_sync: the same scenario seen as a restart property: a stub whose session ended in
// the middle of a split synchronization behaves like a fresh one in the next session.
//verif:property C16
//verif:cut (*github.com/containerd/nri/pkg/api.EventMask).PrettyString => verifPretty
//verif:replay-with-cuts
//verif:expect-cover done
func H_C16_restart_forgets_sync() { staleSyncRun() }

func staleSyncRun() {
	s, r, _, err := newStubFor(0)
	if err != nil {
		return
	}
	ctx := context.Background()
	p1, c1 := &api.PodSandbox{Id: nondetString()}, &api.Container{Id: nondetString()}
	s.started = true
	rpl, e := s.Synchronize(ctx, &api.SynchronizeRequest{Pods: []*api.PodSandbox{p1}, Containers: []*api.Container{c1}, More: true})
	vassert(e == nil && rpl != nil && rpl.More, "chunk-not-acknowledged")
	// the connection is lost before the last chunk: the stub resets itself (what connClosed does)
	s.Lock()
	s.close()
	s.Unlock()
	// next session: a complete synchronization in one message
	p2, c2 := &api.PodSandbox{Id: nondetString()}, &api.Container{Id: nondetString()}
	s.started = true
	_, e = s.Synchronize(ctx, &api.SynchronizeRequest{Pods: []*api.PodSandbox{p2}, Containers: []*api.Container{c2}})
	vassert(e == nil, "sync-error")
	n := 0
	for _, c := range r.calls {
		if c.method == "Synchronize" {
			n++
			vassert(len(c.pods) == 1 && c.pods[0] == p2, "stale-pods-from-the-aborted-synchronization")
			vassert(len(c.ctrs) == 1 && c.ctrs[0] == c2, "stale-containers-from-the-aborted-synchronization")
		}
	}
	vassert(n == 1, "handler-not-invoked-exactly-once")
	cover("done")
}
