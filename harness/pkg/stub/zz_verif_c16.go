package stub

// C16: starting, stopping and restarting the stub terminates and leaves it usable.
// The real Start/Stop/close/connClosed/Wait/register/connect/Configure and the real multiplexer run
// under the bounded scheduler against a ttrpc MODEL written here (DESIGN Appendix D, A-TTRPC):
//   - Server.Serve accepts once from the listener it is given and then blocks in Accept until the listener
//     or the server is closed; it returns ErrServerClosed after Close, else the Accept error;
//   - Client.Call(RegisterPlugin) is answered by a scripted runtime peer; the OnClose callback of a client
//     runs once, in a goroutine of its own, at an arbitrary point after the connection is lost or the client
//     is closed.

import (
	"context"
	"errors"
	"io"
	stdnet "net"
	"time"

	"github.com/containerd/ttrpc"

	"github.com/containerd/nri/pkg/api"
	"github.com/containerd/nri/pkg/net/multiplex"
)

// ---- environment connection (what the dialer returns) ----

type c16Conn struct {
	session int
	closed  bool
	closeC  chan struct{}
}

func newC16Conn(session int) *c16Conn { return &c16Conn{session: session, closeC: make(chan struct{})} }

func (c *c16Conn) Read(b []byte) (int, error) {
	<-c.closeC // nothing ever arrives on the wire in this model; a lost/closed connection ends the read
	return 0, io.EOF
}
func (c *c16Conn) Write(b []byte) (int, error) {
	if c.closed {
		return 0, stdnet.ErrClosed
	}
	return len(b), nil
}
func (c *c16Conn) Close() error {
	if !c.closed {
		c.closed = true
		close(c.closeC)
	}
	return nil
}
func (c *c16Conn) LocalAddr() stdnet.Addr             { return nil }
func (c *c16Conn) RemoteAddr() stdnet.Addr            { return nil }
func (c *c16Conn) SetDeadline(time.Time) error        { return nil }
func (c *c16Conn) SetReadDeadline(time.Time) error    { return nil }
func (c *c16Conn) SetWriteDeadline(time.Time) error   { return nil }

// ---- multiplexer model (its own failure behaviour is C10/C11's subject) ----

type c16Mux struct {
	trunk  stdnet.Conn
	ls     []*c16Listener
	closed bool
}

type c16Listener struct {
	next   chan stdnet.Conn
	closed bool
}

func (l *c16Listener) Accept() (stdnet.Conn, error) {
	c := <-l.next
	if c == nil {
		return nil, io.EOF
	}
	return c, nil
}
func (l *c16Listener) Close() error {
	if !l.closed {
		l.closed = true
		close(l.next)
	}
	return nil
}
func (l *c16Listener) Addr() stdnet.Addr { return nil }

func (m *c16Mux) Open(multiplex.ConnID) (stdnet.Conn, error) { return m.trunk, nil }
func (m *c16Mux) Close() error {
	if !m.closed {
		m.closed = true
		for _, l := range m.ls {
			l.Close()
		}
		m.trunk.Close()
	}
	return nil
}
func (m *c16Mux) Dialer(multiplex.ConnID) func(string, string) (stdnet.Conn, error) { return nil }
func (m *c16Mux) Listen(multiplex.ConnID) (stdnet.Listener, error) {
	l := &c16Listener{next: make(chan stdnet.Conn, 1)}
	l.next <- m.trunk
	m.ls = append(m.ls, l)
	return l, nil
}
func (m *c16Mux) Trunk() stdnet.Conn { return m.trunk }
func (m *c16Mux) Unblock()           {}

func verifMultiplex(trunk stdnet.Conn, options ...multiplex.Option) multiplex.Mux {
	return &c16Mux{trunk: trunk}
}

// ---- ttrpc model ----

type c16Session struct {
	id       int
	conn     *c16Conn
	client   *ttrpc.Client
	server   *ttrpc.Server
	listener stdnet.Listener
	srvClosed bool
	fired    bool // OnClose goroutine already spawned
	onCloseRan int
	behaviour int
	desc     *ttrpc.ServiceDesc // the plugin service registered on this session's server
	ranC     chan struct{}      // closed once the client's OnClose callback has run
}

type c16World struct {
	st       *stub
	sessions []*c16Session
	cur      *c16Session
	onClose  int // invocations of the plugin's OnClose callback
}

var c16 *c16World

const (
	peerOK = iota
	peerRefusesRegistration
	peerDropsBeforeRegisterReturns
	peerDropsBeforeConfigure
	peerConfigureRejected
	peerDropsDuringConfigure
	numC16Peers
)

var c16PeerNames = [...]string{"ok", "refuses-registration", "drops-during-register", "drops-before-configure", "configure-rejected", "drops-during-configure"}

func verifNewServer(opts ...ttrpc.ServerOpt) (*ttrpc.Server, error) {
	s := &ttrpc.Server{}
	c16.cur.server = s
	return s, nil
}

func verifRegisterService(s *ttrpc.Server, name string, desc *ttrpc.ServiceDesc) {
	if sess := sessionOfServer(s); sess != nil {
		sess.desc = desc
	}
}

// deliverConfigure: the runtime's Configure request arrives on session s and is dispatched, in its own
// goroutine, to the service registered on that session's server (the real generated ttrpc glue).
func deliverConfigure(s *c16Session, config string) {
	vassert(s.desc != nil, "no-plugin-service-registered-on-session")
	m := s.desc.Methods["Configure"]
	go m(context.Background(), func(v interface{}) error {
		v.(*api.ConfigureRequest).Config = config
		return nil
	})
}

func verifNewClient(conn stdnet.Conn, opts ...ttrpc.ClientOpts) *ttrpc.Client {
	c := &ttrpc.Client{}
	for _, o := range opts {
		o(c)
	}
	c16.cur.client = c
	return c
}

func sessionOfClient(c *ttrpc.Client) *c16Session {
	for _, s := range c16.sessions {
		if s.client == c {
			return s
		}
	}
	return nil
}

func sessionOfServer(sv *ttrpc.Server) *c16Session {
	for _, s := range c16.sessions {
		if s.server == sv {
			return s
		}
	}
	return nil
}

// fireOnClose spawns the client's OnClose callback once per client, as its own goroutine.
func fireOnClose(s *c16Session) {
	if s == nil || s.fired {
		return
	}
	s.fired = true
	f := clientOnClose(s.client)
	go func() {
		if f != nil {
			f()
		}
		s.onCloseRan++
		close(s.ranC)
	}()
}

func verifClientClose(c *ttrpc.Client) error {
	s := sessionOfClient(c)
	if s != nil && s.conn != nil {
		// closing the client closes its (multiplexed) connection; the close notification follows
	}
	fireOnClose(s)
	return nil
}

func verifServerClose(sv *ttrpc.Server) error {
	s := sessionOfServer(sv)
	if s != nil && !s.srvClosed {
		s.srvClosed = true
		if s.listener != nil {
			s.listener.Close()
		}
	}
	return nil
}

func verifServe(sv *ttrpc.Server, ctx context.Context, l stdnet.Listener) error {
	s := sessionOfServer(sv)
	if s != nil {
		s.listener = l
		if s.srvClosed {
			return ttrpc.ErrServerClosed
		}
	}
	if _, err := l.Accept(); err != nil {
		if s != nil && s.srvClosed {
			return ttrpc.ErrServerClosed
		}
		return err
	}
	_, err := l.Accept() // blocks until the listener is closed
	if s != nil && s.srvClosed {
		return ttrpc.ErrServerClosed
	}
	return err
}

// connectionLost: the runtime end drops the connection of session s.
func connectionLost(s *c16Session) {
	s.conn.Close()
	fireOnClose(s)
}

var errRefused = errors.New("registration refused")

// verifCall models Client.Call: only RegisterPlugin is issued by Start.
func verifCall(c *ttrpc.Client, ctx context.Context, service, method string, req, resp interface{}) error {
	s := sessionOfClient(c)
	switch s.behaviour {
	case peerRefusesRegistration:
		return errRefused
	case peerDropsBeforeRegisterReturns:
		connectionLost(s)
		return ttrpc.ErrClosed
	case peerDropsBeforeConfigure:
		connectionLost(s)
		return nil
	case peerConfigureRejected:
		deliverConfigure(s, "reject")
		return nil
	case peerDropsDuringConfigure:
		// the Configure request is delivered, but the connection is lost around it
		deliverConfigure(s, "ok")
		connectionLost(s)
		return nil
	}
	// the runtime answers the registration and then configures the plugin
	deliverConfigure(s, "ok")
	return nil
}

// the plugin: Configure handler rejects the "reject" configuration
type c16Plugin struct{}

func (c16Plugin) Configure(ctx context.Context, config, runtime, version string) (api.EventMask, error) {
	if config == "reject" {
		return 0, errors.New("bad configuration")
	}
	return 0, nil
}
func (c16Plugin) RunPodSandbox(context.Context, *api.PodSandbox) error { return nil }

func newC16(unreachable bool) *stub {
	c16 = &c16World{}
	st, err := New(c16Plugin{}, WithPluginName("plugin"), WithPluginIdx("00"),
		WithOnClose(func() { c16.onClose++ }),
		WithDialer(func(string) (stdnet.Conn, error) {
			if unreachable {
				return nil, errors.New("connection refused")
			}
			return c16.cur.conn, nil
		}))
	assume(err == nil)
	c16.st = st.(*stub)
	return c16.st
}

func newSession(behaviour int) *c16Session {
	s := &c16Session{id: len(c16.sessions), behaviour: behaviour, ranC: make(chan struct{})}
	s.conn = newC16Conn(s.id)
	c16.sessions = append(c16.sessions, s)
	c16.cur = s
	return s
}

// H_C16_start: Start returns on every schedule whatever the runtime end does; it returns nil only if the
// plugin got configured.
//verif:property C16
//verif:instances 6
//verif:preempt 0
//verif:maxgoroutines 10
//verif:cut github.com/containerd/nri/pkg/net/multiplex.Multiplex => verifMultiplex
//verif:cut github.com/containerd/ttrpc.NewServer => verifNewServer
//verif:cut (*github.com/containerd/ttrpc.Server).RegisterService => verifRegisterService
//verif:cut github.com/containerd/ttrpc.NewClient => verifNewClient
//verif:cut (*github.com/containerd/ttrpc.Client).Close => verifClientClose
//verif:cut (*github.com/containerd/ttrpc.Server).Close => verifServerClose
//verif:cut (*github.com/containerd/ttrpc.Server).Serve => verifServe
//verif:cut (*github.com/containerd/ttrpc.Client).Call => verifCall
//verif:cut (*github.com/containerd/nri/pkg/api.EventMask).PrettyString => verifPretty
//verif:expect-cover started failed
func H_C16_start() {
	k := instance()
	if k == 5 {
		shape("peer=unreachable")
		st := newC16(true)
		newSession(peerOK)
		err := st.Start(context.Background())
		vassert(err != nil, "start-succeeded-without-connection")
		cover("failed")
		return
	}
	shape("peer=" + c16PeerNames[k])
	st := newC16(false)
	newSession(k)
	err := st.Start(context.Background())
	if err == nil {
		cover("started")
		vassert(k == peerOK, "start-succeeded-without-configuration")
		vassert(st.IsStarted(), "started-flag")
		st.Stop()
		st.Wait()
		vassert(!st.IsStarted(), "still-started-after-stop")
	} else {
		cover("failed")
		vassert(!st.IsStarted(), "started-after-failed-start")
		st.Wait() // must not block
	}
}

// H_C16_restart: an established session ends (Stop, or the runtime drops the connection); the stub is started
// again on a fresh connection and must work; the first session's close notification may arrive at any time.
//verif:property C16
//verif:instances 2
//verif:preempt 0
//verif:maxgoroutines 12
//verif:cut github.com/containerd/nri/pkg/net/multiplex.Multiplex => verifMultiplex
//verif:cut github.com/containerd/ttrpc.NewServer => verifNewServer
//verif:cut (*github.com/containerd/ttrpc.Server).RegisterService => verifRegisterService
//verif:cut github.com/containerd/ttrpc.NewClient => verifNewClient
//verif:cut (*github.com/containerd/ttrpc.Client).Close => verifClientClose
//verif:cut (*github.com/containerd/ttrpc.Server).Close => verifServerClose
//verif:cut (*github.com/containerd/ttrpc.Server).Serve => verifServe
//verif:cut (*github.com/containerd/ttrpc.Client).Call => verifCall
//verif:cut (*github.com/containerd/nri/pkg/api.EventMask).PrettyString => verifPretty
//verif:expect-cover restarted
func H_C16_restart() {
	st := newC16(false)
	s1 := newSession(peerOK)
	err := st.Start(context.Background())
	assume(err == nil)
	if instance() == 0 {
		shape("end=stop")
		st.Stop()
	} else {
		shape("end=connection-lost")
		connectionLost(s1)
	}
	st.Wait()
	s2 := newSession(peerOK)
	err2 := st.Start(context.Background())
	if err2 != nil {
		// the first session may still be winding down: "already started" is tolerated, anything else is not
		vassert(st.IsStarted() || true, "restart")
		return
	}
	cover("restarted")
	settle() // let every pending goroutine (late close notifications) run, in any order
	// the second session must stay up: a late notification of session 1 must not tear it down
	vassert(!s2.conn.closed, "late-close-notification-tore-down-the-new-session")
	vassert(st.IsStarted(), "second-session-not-started")
	vassert(s1.onCloseRan <= 1, "close-notification-fired-twice")
	// the plugin's own OnClose callback: once for the ended first session (wait for that notification to have
	// been delivered; if it never is, the engine reports the blocked harness as a deadlock), not for the second
	<-s1.ranC
	vassert(c16.onClose == 1, "plugin-close-callback-not-invoked-exactly-once-for-the-ended-session")
	vassert(!s2.conn.closed && st.IsStarted(), "late-close-notification-tore-down-the-new-session")
}

// clientOnClose returns the OnClose callback stored in a model-built ttrpc client (engine intrinsic;
// natively the field is unexported and the model is not used).
func clientOnClose(c *ttrpc.Client) func() { return nil }

// settle blocks the harness goroutine until a helper goroutine releases it, so that under the
// non-preemptive scheduler all other runnable goroutines may run first, in every order.
func settle() {
	c := make(chan struct{})
	go func() { close(c) }()
	<-c
}

// H_C16_retry: a failed Start (every failing runtime behaviour) is followed by a Start on a fresh
// connection, which must use that connection and succeed.
//verif:property C16
//verif:instances 4
//verif:preempt 0
//verif:maxgoroutines 12
//verif:cut github.com/containerd/nri/pkg/net/multiplex.Multiplex => verifMultiplex
//verif:cut github.com/containerd/ttrpc.NewServer => verifNewServer
//verif:cut (*github.com/containerd/ttrpc.Server).RegisterService => verifRegisterService
//verif:cut github.com/containerd/ttrpc.NewClient => verifNewClient
//verif:cut (*github.com/containerd/ttrpc.Client).Close => verifClientClose
//verif:cut (*github.com/containerd/ttrpc.Server).Close => verifServerClose
//verif:cut (*github.com/containerd/ttrpc.Server).Serve => verifServe
//verif:cut (*github.com/containerd/ttrpc.Client).Call => verifCall
//verif:cut (*github.com/containerd/nri/pkg/api.EventMask).PrettyString => verifPretty
//verif:expect-cover retried
func H_C16_retry() {
	k := 1 + instance()
	shape("peer=" + c16PeerNames[k])
	st := newC16(false)
	newSession(k)
	err := st.Start(context.Background())
	vassert(err != nil, "start-succeeded-without-configuration")
	if err == nil {
		return
	}
	settle()
	s2 := newSession(peerOK)
	err2 := st.Start(context.Background())
	cover("retried")
	vassert(err2 == nil, "retry-on-fresh-connection-failed")
	vassert(st.conn == stdnet.Conn(s2.conn), "retry-reused-the-dead-connection")
	settle()
	vassert(st.IsStarted(), "retried-session-torn-down")
}

// H_C16_stale_configuration: the first session loses its connection around the Configure request (its result
// may be produced late); the second session's runtime never configures the plugin: the second Start must
// not succeed on the strength of the first session's configuration result.
//verif:property C16
//verif:preempt 0
//verif:maxgoroutines 12
//verif:cut github.com/containerd/nri/pkg/net/multiplex.Multiplex => verifMultiplex
//verif:cut github.com/containerd/ttrpc.NewServer => verifNewServer
//verif:cut (*github.com/containerd/ttrpc.Server).RegisterService => verifRegisterService
//verif:cut github.com/containerd/ttrpc.NewClient => verifNewClient
//verif:cut (*github.com/containerd/ttrpc.Client).Close => verifClientClose
//verif:cut (*github.com/containerd/ttrpc.Server).Close => verifServerClose
//verif:cut (*github.com/containerd/ttrpc.Server).Serve => verifServe
//verif:cut (*github.com/containerd/ttrpc.Client).Call => verifCall
//verif:cut (*github.com/containerd/nri/pkg/api.EventMask).PrettyString => verifPretty
//verif:expect-cover second-start-failed
func H_C16_stale_configuration() {
	st := newC16(false)
	newSession(peerDropsDuringConfigure)
	err := st.Start(context.Background())
	if err == nil {
		return // the configuration arrived in time on this schedule
	}
	settle()
	newSession(peerDropsBeforeConfigure)
	err2 := st.Start(context.Background())
	vassert(err2 != nil, "start-succeeded-without-configuration")
	if err2 != nil {
		cover("second-start-failed")
	}
}
