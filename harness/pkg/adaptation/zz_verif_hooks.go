package adaptation

// Hooks in the combined result (C03) and in the view of later plugins (C04).

var hookStages = [...]string{"prestart", "createRuntime", "createContainer", "startContainer", "poststart", "poststop"}

func stageOf(h *Hooks, s int) *[]*Hook {
	switch s {
	case 0:
		return &h.Prestart
	case 1:
		return &h.CreateRuntime
	case 2:
		return &h.CreateContainer
	case 3:
		return &h.StartContainer
	case 4:
		return &h.Poststart
	}
	return &h.Poststop
}

// hooksOf: hooks of source src ("o", "p0", "p1") in every stage; in stage probe only when present.
func hooksOf(src string, probe int, present bool) *Hooks {
	h := &Hooks{}
	for s := range hookStages {
		if s == probe && !present {
			continue
		}
		*stageOf(h, s) = []*Hook{{Path: src + "-" + hookStages[s]}}
		if s == probe {
			// a second hook of the same source keeps the order inside one adjustment observable
			*stageOf(h, s) = append(*stageOf(h, s), &Hook{Path: src + "-" + hookStages[s] + "-2"})
		}
	}
	return h
}

func sameHookPaths(got []*Hook, want []string, tag string) {
	vassert(len(got) == len(want), tag+"-count")
	if len(got) != len(want) {
		return
	}
	for i := range got {
		vassert(got[i] != nil && got[i].Path == want[i], tag+"-element")
	}
}

func pathsOf(hs ...*Hooks) func(s int) []string {
	return func(s int) []string {
		var r []string
		for _, h := range hs {
			if h == nil {
				continue
			}
			for _, x := range *stageOf(h, s) {
				r = append(r, x.Path)
			}
		}
		return r
	}
}

// rhHooksRun: the original container and two plugins carry hooks in all six stages; in stage `probe` each of
// the three sources independently has hooks or not. After every plugin: the container shown to the next
// plugin carries, per stage, original ++ plugin 1 ++ plugin 2 so far (mode 4); at the end the combined
// adjustment carries, per stage, plugin 1 ++ plugin 2 (mode 3) - which is what applying them in turn appends.
func rhHooksRun(probe int, mode int) {
	shape("stage=" + hookStages[probe])
	orig := hooksOf("o", probe, nondetBool())
	req := &CreateContainerRequest{Container: &Container{Id: nondetString(), Hooks: orig}, Pod: &PodSandbox{}}
	want0 := pathsOf(orig)
	var origPaths [6][]string
	for s := range hookStages {
		origPaths[s] = want0(s)
	}
	r := collectCreateContainerResult(req)
	ps := symPlugins(2)
	var added []*Hooks
	for j := 0; j < 2; j++ {
		h := hooksOf("p"+itoa(j), probe, nondetBool())
		// the plugin's own message must not be aliased by later appends: give it spare capacity
		for s := range hookStages {
			l := *stageOf(h, s)
			if len(l) > 0 {
				spare := make([]*Hook, len(l), len(l)+4)
				copy(spare, l)
				*stageOf(h, s) = spare
			}
		}
		err := r.apply(&CreateContainerResponse{Adjust: &ContainerAdjustment{Hooks: h}}, ps[j])
		vassert(err == nil, "hooks-rejected")
		added = append(added, h)
		if mode == 4 {
			for s := range hookStages {
				want := append([]string{}, origPaths[s]...)
				want = append(want, pathsOf(added...)(s)...)
				sameHookPaths(*stageOf(req.Container.Hooks, s), want, "view-hooks-"+hookStages[s])
			}
		}
	}
	if mode == 3 {
		rpl := r.createContainerResponse().Adjust
		vassert(rpl != nil && rpl.Hooks != nil, "combined-hooks-missing")
		if rpl != nil && rpl.Hooks != nil {
			for s := range hookStages {
				sameHookPaths(*stageOf(rpl.Hooks, s), pathsOf(added...)(s), "combined-hooks-"+hookStages[s])
			}
		}
	}
	cover("compared")
}

// H_C04_hooks_view: what a later plugin is shown carries the hooks of the original container and of all
// earlier plugins, per stage, in order.
//verif:property C04
//verif:instances 6
//verif:expect-cover compared
func H_C04_hooks_view() { rhHooksRun(instance(), 4) }

// H_C03_hooks_combined: the combined adjustment carries every plugin's hooks per stage in plugin order.
//verif:property C03
//verif:instances 6
//verif:expect-cover compared
func H_C03_hooks_combined() { rhHooksRun(instance(), 3) }
