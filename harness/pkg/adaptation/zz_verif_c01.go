package adaptation

// C01 / C02 harnesses on the result level: N plugins' creation responses are applied in turn
// to the real (*result).apply; the real verdict (error / no error) of every apply is compared
// with the reference ownership model expectedConflict (zz_verif_rh.go).
//
//   C01 direction: expected conflict  => apply returns an error
//   C02 direction: no expected conflict and well-formed response => apply returns nil

// rhAdjustRun applies n plugins' adjustments of family f; maxItems[i] bounds plugin i's items.
// mode 1 = C01 assertions, mode 2 = C02 assertions.
func rhAdjustRun(f int, maxItems []int, mode int) {
	shape("fam=" + famNames[f])
	req := symOriginal(f)
	r := collectCreateContainerResult(req)
	n := len(maxItems)
	var ps []string
	if mode == 1 {
		// two different plugins are different even when they registered under the same index and name
		ps = symPluginsAnyNames(n)
	} else {
		ps = symPlugins(n)
	}
	var prev [][]sItem
	for j := 0; j < n; j++ {
		cur := symItems(f, maxItems[j])
		wf := wellFormed(f, cur)
		exp := expectedConflict(f, prev, cur)
		err := r.apply(&CreateContainerResponse{Adjust: buildAdjust(f, cur)}, ps[j])
		if mode == 1 {
			coverIf(exp, "collision")
			if err == nil {
				vassert(bnot(exp), "undetected-collision")
			}
		} else {
			coverIf(band(wf, bnot(exp)), "conflict-free")
			if err != nil {
				vassert(bor(bnot(wf), exp), "spurious-conflict")
			}
		}
		if err != nil {
			return
		}
		assume(wf)
		prev = append(prev, cur)
	}
}

// H_C01_adjust2q: two plugins, <=1 and <=2 items, every item family (instance = family).
//verif:property C01
//verif:instances 29
//verif:tier quick
//verif:expect-cover collision
func H_C01_adjust2q() { rhAdjustRun(instance(), []int{1, 2}, 1) }

// H_C01_adjust2qb: as adjust2q with the bounds swapped (<=2 items for the earlier plugin, so that
// "earlier plugin removes and re-sets, later plugin sets plainly" is inside the quick bound).
//verif:property C01
//verif:instances 29
//verif:tier quick
//verif:expect-cover collision
func H_C01_adjust2qb() { rhAdjustRun(instance(), []int{2, 1}, 1) }

// H_C01_adjust2: two plugins, <=2 items each, every item family (instance = family).
//verif:property C01
//verif:thorough-instances 0 2 3 4 5 6 7 8 9 10 11 12 13 14 15 16 17 18 19 20 21 22 23 24 25 26 27 28
//verif:instances 29
//verif:tier thorough
//verif:expect-cover collision
func H_C01_adjust2() { rhAdjustRun(instance(), []int{2, 2}, 1) }

// H_C01_adjust3: three plugins (1,2,1 items), every item family.
//verif:property C01
//verif:thorough-instances 2 3 4 5 6 7 8 9 10 11 12 13 14 15 16 17 18 19 20 21 22 23 24 25 26 27 28
//verif:instances 29
//verif:tier thorough
//verif:expect-cover collision
func H_C01_adjust3() { rhAdjustRun(instance(), []int{1, 2, 1}, 1) }

// H_C02_adjust2q: two plugins, <=1 and <=2 items: disjoint or removal-prefixed writes never conflict.
//verif:property C02
//verif:instances 29
//verif:tier quick
//verif:expect-cover conflict-free
func H_C02_adjust2q() { rhAdjustRun(instance(), []int{1, 2}, 2) }

// H_C02_adjust3q: three plugins, one item each: set / remove / set-again chains.
//verif:property C02
//verif:instances 29
//verif:tier quick
//verif:expect-cover conflict-free
func H_C02_adjust3q() { rhAdjustRun(instance(), []int{1, 1, 1}, 2) }

// H_C02_adjust2: two plugins, <=2 items each.
//verif:property C02
//verif:thorough-instances 2 3 4 5 6 7 8 9 10 11 12 13 14 15 16 17 18 19 20 21 22 23 24 25 26 27 28
//verif:instances 29
//verif:tier thorough
//verif:expect-cover conflict-free
func H_C02_adjust2() { rhAdjustRun(instance(), []int{2, 2}, 2) }

// H_C02_adjust3: three plugins (1,2,1 items): includes set / remove / set-again chains.
//verif:property C02
//verif:thorough-instances 2 3 4 5 6 7 8 9 10 11 12 13 14 15 16 17 18 19 20 21 22 23 24 25 26 27 28
//verif:instances 29
//verif:tier thorough
//verif:expect-cover conflict-free
func H_C02_adjust3() { rhAdjustRun(instance(), []int{1, 2, 1}, 2) }

// H_C01_update2: two plugins update arbitrary targets with the same resource family;
// instance = request kind (3) x resource family (20).
//verif:property C01
//verif:instances 60
//verif:expect-cover collision
func H_C01_update2() {
	k, f := instance()/20, resFams[instance()%20]
	rhUpdateRun(k, []int{f, f}, []int{1, 2}, 1, 1)
}

// H_C01_update3: three plugins, same family, all request kinds.
//verif:property C01
//verif:thorough-instances 2 3 4 5 6 7 8 9 10 11 12 13 14 15 16 17 18 19 22 23 24 25 26 27 28 29 30 31 32 33 34 35 36 37 38 39 42 43 44 45 46 47 48 49 50 51 52 53 54 55 56 57 58 59
//verif:instances 60
//verif:tier thorough
//verif:expect-cover collision
func H_C01_update3() {
	k, f := instance()/20, resFams[instance()%20]
	rhUpdateRun(k, []int{f, f, f}, []int{1, 2, 1}, 2, 1)
}

// H_C02_update2q: two plugins update arbitrary targets with families f and f+1 (different fields never
// conflict) against a fully pre-populated runtime request; instance = kind x family.
//verif:property C02
//verif:instances 60
//verif:tier quick
//verif:expect-cover conflict-free
func H_C02_update2q() {
	k, i := instance()/20, instance()%20
	rhUpdateRun(k, []int{resFams[i], resFams[(i+1)%20]}, []int{1, 1}, 2, 2)
}

// H_C02_update2sameq: two plugins, same family, disjoint keys/targets must not conflict.
//verif:property C02
//verif:instances 60
//verif:tier quick
//verif:expect-cover conflict-free
func H_C02_update2sameq() {
	k, f := instance()/20, resFams[instance()%20]
	rhUpdateRun(k, []int{f, f}, []int{1, 1}, 1, 2)
}

// H_C02_update2: as update2q with <=2 items per plugin.
//verif:property C02
//verif:thorough-instances 2 3 4 5 6 7 8 9 10 11 12 13 14 15 16 17 18 19 22 23 24 25 26 27 28 29 30 31 32 33 34 35 36 37 38 39 42 43 44 45 46 47 48 49 50 51 52 53 54 55 56 57 58 59
//verif:instances 60
//verif:tier thorough
//verif:expect-cover conflict-free
func H_C02_update2() {
	k, i := instance()/20, instance()%20
	rhUpdateRun(k, []int{resFams[i], resFams[(i+1)%20]}, []int{2, 2}, 2, 2)
}

// H_C02_update2same: two plugins, same family, <=2 items, disjoint keys/targets must not conflict.
//verif:property C02
//verif:thorough-instances 2 3 4 5 6 7 8 9 10 11 12 13 14 15 16 17 18 19 22 23 24 25 26 27 28 29 30 31 32 33 34 35 36 37 38 39 42 43 44 45 46 47 48 49 50 51 52 53 54 55 56 57 58 59
//verif:instances 60
//verif:tier thorough
//verif:expect-cover conflict-free
func H_C02_update2same() {
	k, f := instance()/20, resFams[instance()%20]
	rhUpdateRun(k, []int{f, f}, []int{2, 2}, 2, 2)
}

// H_C02_update3: three plugins on families f, f+1, f: third may collide with first only.
//verif:property C02
//verif:instances 60
//verif:tier thorough
//verif:expect-cover conflict-free
func H_C02_update3() {
	k, i := instance()/20, instance()%20
	rhUpdateRun(k, []int{resFams[i], resFams[(i+1)%20], resFams[i]}, []int{1, 1, 1}, 2, 2)
}

// rhAdjustCross: plugin j sets one item of scalar resource family fams[j] in a creation adjustment;
// different fields never conflict, whatever their order (C02), same field always does (C01).
func rhAdjustCross(fams []int, mode int) {
	for _, f := range fams {
		shape("fam=" + famNames[f])
	}
	req := symOriginal(fams[0])
	r := collectCreateContainerResult(req)
	ps := symPlugins(len(fams))
	for j, f := range fams {
		cur := symItems(f, 1)
		err := r.apply(&CreateContainerResponse{Adjust: buildAdjust(f, cur)}, ps[j])
		conflictExpected := false
		for i := 0; i < j; i++ {
			if fams[i] == f && len(cur) > 0 {
				conflictExpected = true
			}
		}
		_ = conflictExpected
		if mode == 2 {
			distinct := true
			for i := 0; i < j; i++ {
				if fams[i] == f {
					distinct = false
				}
			}
			if distinct {
				cover("conflict-free")
				vassert(err == nil, "spurious-conflict-between-different-fields")
			}
		}
		if err != nil {
			return
		}
	}
}

var scalarResFams = [...]int{famMemLimit, famMemReservation, famMemSwap, famMemKernel, famMemKernelTcp, famMemSwappiness, famMemDisableOom,
	famMemUseHierarchy, famCpuShares, famCpuQuota, famCpuPeriod, famCpuRtRuntime, famCpuRtPeriod, famCpuCpus, famCpuMems, famPids, famBlockio, famRdt,
	famCgroupsPath, famOom}

// H_C02_adjust_cross: every ordered pair of distinct scalar fields (20 x 19), one per plugin, in a creation
// request: never a conflict. instance = first field; the second is chosen.
//verif:property C02
//verif:instances 20
//verif:expect-cover conflict-free
func H_C02_adjust_cross() {
	i := instance()
	j := choose(19)
	if j >= i {
		j++
	}
	rhAdjustCross([]int{scalarResFams[i], scalarResFams[j]}, 2)
}

// H_C02_update_cross: as H_C02_adjust_cross for updates (18 resource fields that updates carry), in every
// kind of request that carries updates, same or different targets.
//verif:property C02
//verif:instances 18
//verif:tier thorough
//verif:expect-cover conflict-free
func H_C02_update_cross() {
	i := instance()
	j := choose(17)
	if j >= i {
		j++
	}
	k := choose(3)
	rhUpdateRun(k, []int{scalarFams[i], scalarFams[j]}, []int{1, 1}, 0, 2)
}

// H_C02_update_crossq: every ordered pair of distinct fields, both plugins updating the same container; the
// request kind is fixed per pair ((i+j) mod 3).
//verif:property C02
//verif:instances 18
//verif:tier quick
//verif:expect-cover conflict-free
func H_C02_update_crossq() {
	i := instance()
	j := choose(17)
	if j >= i {
		j++
	}
	rhSameTarget = true
	rhUpdateRun((i+j)%3, []int{scalarFams[i], scalarFams[j]}, []int{1, 1}, 0, 2)
}
