package adaptation

// H_C01_smoke: two plugins set one annotation each.
//verif:property C01
//verif:expect-cover collision
func H_C01_smoke() {
	id := nondetString()
	req := &CreateContainerRequest{Container: &Container{Id: id}}
	r := collectCreateContainerResult(req)
	p1, p2 := nondetString(), nondetString()
	assume(p1 != p2)
	assume(p1 != "")
	assume(p2 != "")
	k1, v1 := nondetString(), nondetString()
	k2, v2 := nondetString(), nondetString()
	a1 := &ContainerAdjustment{Annotations: map[string]string{k1: v1}}
	a2 := &ContainerAdjustment{Annotations: map[string]string{k2: v2}}
	e1 := r.apply(&CreateContainerResponse{Adjust: a1}, p1)
	assume(e1 == nil)
	e2 := r.apply(&CreateContainerResponse{Adjust: a2}, p2)
	if k1 == k2 {
		if k1 != "" {
			if k1[0] != '-' {
				cover("collision")
				vassert(e2 != nil, "undetected annotation collision")
			}
		}
	}
}
