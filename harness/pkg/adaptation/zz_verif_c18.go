package adaptation

// C18: pre-installed plugins are launched, configured and reaped as documented - decided at the OS-call
// boundary: the file system, process and socket calls are environment functions (cuts) that record their
// arguments and answer as scripted; what the kernel does with them is outside the claim.

import (
	"context"
	"errors"
	"io/fs"
	stdnet "net"
	"os"
	"os/exec"
	"time"
)

type c18Entry struct {
	name    string
	isDir   bool
	mode    fs.FileMode
	infoErr bool
}

func (e *c18Entry) Name() string      { return e.name }
func (e *c18Entry) IsDir() bool       { return e.isDir }
func (e *c18Entry) Type() fs.FileMode { return e.mode.Type() }
func (e *c18Entry) Info() (fs.FileInfo, error) {
	if e.infoErr {
		return nil, errors.New("stat failed")
	}
	return e, nil
}
func (e *c18Entry) Size() int64        { return 0 }
func (e *c18Entry) Mode() fs.FileMode  { return e.mode }
func (e *c18Entry) ModTime() time.Time { return time.Time{} }
func (e *c18Entry) Sys() interface{}   { return nil }

type c18World struct {
	entries  []*c18Entry
	files    map[string]string // existing drop-in files
	fileErr  map[string]bool   // paths whose read fails with another error
	started  []*exec.Cmd
	startErr map[string]bool // command paths that fail to start
	killed   []*os.Process
	waited   []*os.Process
	sockFlags []int
	peerFiles []*os.File
	behaviour map[string]int // by command path: how the launched plugin behaves
	procOf    map[*os.Process]string
}

var c18 *c18World

func verifReadDir(name string) ([]os.DirEntry, error) {
	var r []os.DirEntry
	for _, e := range c18.entries {
		r = append(r, e)
	}
	return r, nil
}

func verifReadFile(name string) ([]byte, error) {
	if c18.fileErr[name] {
		return nil, errors.New("read error")
	}
	if c, ok := c18.files[name]; ok {
		return []byte(c), nil
	}
	return nil, fs.ErrNotExist
}

// candidate directory entry names with the index/base the statement assigns them ("" = not a plugin name)
var c18Names = [...]string{"10-foo", "05-bar", "99-a-b", "foo", "1-x", "ab-cd", "10foo", "100-x", "-1-x"}
var c18Idx = [...]string{"10", "05", "99", "", "", "", "", "", ""}
var c18Base = [...]string{"foo", "bar", "a-b", "", "", "", "", "", ""}

// H_C18_discover: two directory entries (name from 9 candidates, symbolic dir flag / mode bits / stat error)
// and arbitrary presence of the two drop-in files of each: launched set, order and configuration.
//verif:property C18
//verif:preempt 0
//verif:cut os.ReadDir => verifReadDir
//verif:cut os.ReadFile => verifReadFile
//verif:expect-cover discovered malformed
func H_C18_discover() {
	c18 = &c18World{files: map[string]string{}, fileErr: map[string]bool{}}
	r := &Adaptation{pluginPath: "/opt/nri/plugins", dropinPath: "/etc/nri/conf.d"}
	n := 2
	ni := make([]int, n)
	for i := 0; i < n; i++ {
		ni[i] = choose(len(c18Names))
		if i == 1 && ni[1] == ni[0] {
			assume(false)
		}
		e := &c18Entry{name: c18Names[ni[i]], isDir: nondetBool(), mode: fs.FileMode(nondetUint32()), infoErr: nondetBool()}
		c18.entries = append(c18.entries, e)
		if c18Idx[ni[i]] != "" {
			if nondetBool() {
				c18.files["/etc/nri/conf.d/"+c18Names[ni[i]]+".conf"] = "CFG-full-" + c18Names[ni[i]]
				if nondetBool() {
					c18.files["/etc/nri/conf.d/"+c18Names[ni[i]]+".conf"] = "" // an existing, empty drop-in
				}
			}
			if nondetBool() {
				c18.files["/etc/nri/conf.d/"+c18Base[ni[i]]+".conf"] = "CFG-base-" + c18Base[ni[i]]
			}
		}
	}
	ids, names, cfgs, err := r.discoverPlugins()
	// reference: entries that are regular (not directories), stat-able and executable are plugin candidates
	var wantIdx, wantBase, wantCfg []string
	malformed := false
	for i := 0; i < n; i++ {
		e := c18.entries[i]
		if e.isDir || e.infoErr || e.mode&0o111 == 0 {
			continue
		}
		if c18Idx[ni[i]] == "" {
			malformed = true // an executable with a malformed name aborts discovery (documented behaviour)
			break
		}
		wantIdx = append(wantIdx, c18Idx[ni[i]])
		wantBase = append(wantBase, c18Base[ni[i]])
		cfg := ""
		if c, ok := c18.files["/etc/nri/conf.d/"+c18Names[ni[i]]+".conf"]; ok {
			cfg = c
		} else if c, ok := c18.files["/etc/nri/conf.d/"+c18Base[ni[i]]+".conf"]; ok {
			cfg = c
		}
		wantCfg = append(wantCfg, cfg)
	}
	if malformed {
		cover("malformed")
		vassert(err != nil, "malformed-plugin-name-accepted")
		return
	}
	cover("discovered")
	vassert(err == nil, "discovery-error")
	vassert(len(ids) == len(wantIdx) && len(names) == len(wantIdx) && len(cfgs) == len(wantIdx), "launched-set")
	if len(ids) == len(wantIdx) && len(names) == len(wantIdx) && len(cfgs) == len(wantIdx) {
		for i := range wantIdx {
			vassert(ids[i] == wantIdx[i] && names[i] == wantBase[i], "plugin-identity")
			vassert(cfgs[i] == wantCfg[i], "drop-in-configuration")
		}
	}
}

// ---- launch ----

func verifOpen(name string) (*os.File, error) { return nil, errors.New("not a wasm file (environment)") }

func verifSocketpair(domain, typ, proto int) ([2]int, error) {
	c18.sockFlags = append(c18.sockFlags, typ)
	return [2]int{10, 11}, nil
}

func verifNewFile(fd uintptr, name string) *os.File { return &os.File{} }

func verifFileClose(f *os.File) error { return nil }

func verifFileName(f *os.File) string { return "file" }

func verifFileConn(f *os.File) (stdnet.Conn, error) { return &c18Conn{}, nil }

type c18Conn struct{ closed int }

func (c *c18Conn) Read(b []byte) (int, error)         { return 0, errors.New("env") }
func (c *c18Conn) Write(b []byte) (int, error)        { return len(b), nil }
func (c *c18Conn) Close() error                       { c.closed++; return nil }
func (c *c18Conn) LocalAddr() stdnet.Addr             { return nil }
func (c *c18Conn) RemoteAddr() stdnet.Addr            { return nil }
func (c *c18Conn) SetDeadline(time.Time) error        { return nil }
func (c *c18Conn) SetReadDeadline(time.Time) error    { return nil }
func (c *c18Conn) SetWriteDeadline(time.Time) error   { return nil }

func verifCommand(name string, arg ...string) *exec.Cmd {
	return &exec.Cmd{Path: name, Args: append([]string{name}, arg...)}
}

func verifCmdStart(c *exec.Cmd) error {
	if c18.startErr[c.Path] {
		return errors.New("exec failed")
	}
	c.Process = &os.Process{}
	c18.procOf[c.Process] = c.Path
	c18.started = append(c18.started, c)
	return nil
}

func verifKill(p *os.Process) error    { c18.killed = append(c18.killed, p); return nil }
func verifRelease(p *os.Process) error { return nil }
func verifWait(p *os.Process) (*os.ProcessState, error) {
	c18.waited = append(c18.waited, p)
	return nil, nil
}

// launched plugin behaviours during start-up
const (
	lpGood = iota
	lpNeverRegisters
	lpClosesBeforeRegistering
	lpConfigureFails
	lpSyncFails
	numLp
)

var lpNames = [...]string{"good", "never-registers", "closes-early", "configure-fails", "sync-fails"}

// verifConnect replaces (*plugin).connect: the launched process is an environment peer.
func verifConnect(p *plugin, conn stdnet.Conn) error {
	ep := &envPlugin{w: &envWorld{}, cfgEvents: int32(ValidEvents)}
	rpcc, rpcs := envRPC()
	p.impl = &pluginType{ttrpcImpl: ep}
	p.mux, p.rpcl, p.rpcc, p.rpcs = &envMux{}, &envListener{}, rpcc, rpcs
	b := c18.behaviour[p.cmd.Path]
	switch b {
	case lpConfigureFails:
		ep.fail = errHandler
	case lpSyncFails:
		ep.syncFn = func(*SynchronizeRequest) (*SynchronizeResponse, error) { return nil, errors.New("sync failed") }
	}
	go func() {
		switch b {
		case lpNeverRegisters:
		case lpClosesBeforeRegistering:
			close(p.closeC)
			p.close()
		default:
			// a launched plugin is identified by its file name: whatever index it claims when registering
			// (here 10-early claims 90) must not change its name or its place in the invocation order
			claim := p.idx
			if claim == "10" {
				claim = "90"
			}
			p.RegisterPlugin(context.Background(), &RegisterPluginRequest{PluginName: p.base, PluginIdx: claim})
		}
	}()
	return nil
}

// H_C18_launch: two pre-installed plugins (indices in directory order 20, 10) with every combination of
// start-up behaviours: environment and descriptors handed to the process, close-on-exec socket flags,
// skipping of failed plugins, invocation order, and killing of every started process that is dropped or
// still running at Stop.
//verif:property C18
//verif:instances 36
//verif:quick-instances 0 1 2 3 4 5 6 12 18 24 30 14
//verif:preempt 0
//verif:timers
//verif:cut os.ReadDir => verifReadDir
//verif:cut os.ReadFile => verifReadFile
//verif:cut os.Open => verifOpen
//verif:cut golang.org/x/sys/unix.Socketpair => verifSocketpair
//verif:cut os.NewFile => verifNewFile
//verif:cut (*os.File).Close => verifFileClose
//verif:cut (*os.File).Name => verifFileName
//verif:cut net.FileConn => verifFileConn
//verif:cut os/exec.Command => verifCommand
//verif:cut (*os/exec.Cmd).Start => verifCmdStart
//verif:cut (*os.Process).Kill => verifKill
//verif:cut (*os.Process).Wait => verifWait
//verif:cut (*os.Process).Release => verifRelease
//verif:cut (*github.com/containerd/nri/pkg/adaptation.plugin).connect => verifConnect
//verif:expect-cover launched all-good-active
func H_C18_launch() {
	c18 = &c18World{files: map[string]string{}, fileErr: map[string]bool{}, startErr: map[string]bool{},
		behaviour: map[string]int{}, procOf: map[*os.Process]string{}}
	names := []string{"20-late", "10-early"}
	paths := []string{"/opt/nri/plugins/20-late", "/opt/nri/plugins/10-early"}
	for _, nm := range names {
		c18.entries = append(c18.entries, &c18Entry{name: nm, mode: 0o755})
	}
	// instance: behaviour of each plugin (5 + exec failure = 6 each)
	b0, b1 := instance()/6, instance()%6
	bs := []int{b0, b1}
	for i, b := range bs {
		if b == numLp {
			c18.startErr[paths[i]] = true
			shape(names[i] + "=exec-fails")
		} else {
			c18.behaviour[paths[i]] = b
			shape(names[i] + "=" + lpNames[b])
		}
	}
	r := &Adaptation{name: "rt", version: "1", pluginPath: "/opt/nri/plugins", dropinPath: "/etc/nri/conf.d", dontListen: true}
	r.syncFn = func(ctx context.Context, cb SyncCB) error {
		_, err := cb(ctx, nil, nil)
		return err
	}
	err := r.Start()
	vassert(err == nil, "start-error")
	cover("launched")
	// what each started process was given
	for _, cmd := range c18.started {
		i := 0
		if cmd.Path == paths[1] {
			i = 1
		}
		wantEnv := []string{"NRI_PLUGIN_NAME=" + names[i][3:], "NRI_PLUGIN_IDX=" + names[i][:2], "NRI_PLUGIN_SOCKET=3"}
		vassert(len(cmd.Env) == 3, "process-environment")
		if len(cmd.Env) == 3 {
			for k := range wantEnv {
				vassert(cmd.Env[k] == wantEnv[k], "process-environment")
			}
		}
		vassert(len(cmd.ExtraFiles) == 1 && cmd.ExtraFiles[0] != nil, "process-extra-files")
	}
	for _, f := range c18.sockFlags {
		vassert(f&0x80000 != 0, "socketpair-without-cloexec") // SOCK_CLOEXEC
	}
	// active plugins: only well-behaved ones (a well-behaved one may still miss the registration timeout),
	// in index order
	for i, p := range r.plugins {
		known := p.name() == "10-early" || p.name() == "20-late"
		vassert(known, "launched-plugin-identity-changed-by-its-registration")
		good := (p.name() == "10-early" && b1 == lpGood) || (p.name() == "20-late" && b0 == lpGood)
		vassert(good || !known, "failed-plugin-activated")
		if i > 0 {
			vassert(r.plugins[i-1].idx < p.idx, "invocation-order")
		}
	}
	nGood := 0
	if b0 == lpGood {
		nGood++
	}
	if b1 == lpGood {
		nGood++
	}
	if len(r.plugins) == nGood {
		cover("all-good-active")
	}
	settleAH() // closed plugins are stopped asynchronously (removeClosedPlugins): let that happen
	// every started process that was dropped is killed; after Stop all of them are
	killedPath := func(path string) bool {
		for _, p := range c18.killed {
			if c18.procOf[p] == path {
				return true
			}
		}
		return false
	}
	for i, b := range bs {
		if b == numLp {
			continue
		}
		active := false
		for _, p := range r.plugins {
			if p.name() == names[i] {
				active = true
			}
		}
		if !active {
			vassert(killedPath(paths[i]), "dropped-plugin-not-killed:"+lpNames[b])
		}
	}
	r.Stop()
	for i, b := range bs {
		if b != numLp {
			vassert(killedPath(paths[i]), "plugin-not-killed-at-stop")
		}
	}
}

// settleAH lets every other runnable goroutine run before the harness continues (non-preemptive scheduler).
func settleAH() {
	c := make(chan struct{})
	go func() { close(c) }()
	<-c
}
