package adaptation

// AH: adaptation-level harness family. Real Adaptation request methods and plugin relays run against
// environment plugins (implementations of api.PluginService written in the harness) that record a
// ghost trace and answer as scripted / arbitrarily.

import (
	"context"
	"errors"
	"fmt"
	stdnet "net"
	"sync"

	"github.com/containerd/ttrpc"
	"google.golang.org/grpc/codes"
	"google.golang.org/grpc/status"

	"github.com/containerd/nri/pkg/api"
	"github.com/containerd/nri/pkg/net/multiplex"
)

type envCall struct {
	plugin int
	method string
	event  api.Event
	arg    interface{}
	locked bool
	ctxs   int
	timeout int64 // duration of the timeout context the call was made under (-1: none)
}

type envWorld struct {
	r      *Adaptation
	trace  []envCall
	inside int
	maxIn  int
	// concurrency harnesses: when set, every plugin handler contains a scheduling point (yield) and the
	// world tracks whether a handler / the runtime's update callback is running
	yield      *sync.Mutex
	inCallback bool
	overlap    bool // a plugin handler and the update callback were running at the same time
}

// pause is a scheduling point: another goroutine may run here.
func (w *envWorld) pause() {
	w.yield.Lock()
	w.yield.Unlock()
}

// error classes an environment plugin call may return (A-TTRPC, DESIGN Appendix D)
const (
	errNone = iota
	errClosed
	errServerClosed
	errProtocol
	errDeadline
	errHandler
	errHandlerStatus
	numErrKinds
)

var errKindNames = [...]string{"ok", "ttrpc-closed", "ttrpc-server-closed", "ttrpc-protocol", "deadline", "handler-error", "handler-status-error"}

func envError(kind int, depth int) error {
	var e error
	switch kind {
	case errClosed:
		e = ttrpc.ErrClosed
	case errServerClosed:
		e = ttrpc.ErrServerClosed
	case errProtocol:
		e = ttrpc.ErrProtocol
	case errDeadline:
		e = context.DeadlineExceeded
	case errHandler:
		e = errors.New("handler says no")
	case errHandlerStatus:
		// what a handler error looks like after crossing ttrpc: a status error whose code is the plugin's
		// choice (any of the 16 non-OK codes, symbolic); the runtime's own deadline is errDeadline above
		c := nondetUint32()
		assume(c >= 1)
		assume(c <= 16)
		e = status.Error(codes.Code(c), "handler says no")
	default:
		return nil
	}
	for i := 0; i < depth; i++ {
		e = fmt.Errorf("wrapped: %w", e)
	}
	return e
}

type envPlugin struct {
	w      *envWorld
	id     int
	fail   int   // error class returned by the next calls
	failE  error // the very error object returned (identity is asserted)
	adjust *ContainerAdjustment
	update []*ContainerUpdate
	cfgEvents int32
	syncFn func(*SynchronizeRequest) (*SynchronizeResponse, error)
	adjustFn func(*CreateContainerRequest) *ContainerAdjustment // when set: the adjustment depends on the request
}

func (p *envPlugin) record(ctx context.Context, method string, ev api.Event, arg interface{}) {
	c := envCall{plugin: p.id, method: method, event: ev, arg: arg, ctxs: ctxTimeoutCount(), timeout: ctxTimeoutNs(ctx)}
	if p.w.r != nil {
		c.locked = heldByMe(&p.w.r.Mutex)
	}
	p.w.trace = append(p.w.trace, c)
	if p.w.yield != nil {
		p.w.inside++
		if p.w.inside > p.w.maxIn {
			p.w.maxIn = p.w.inside
		}
		if p.w.inCallback {
			p.w.overlap = true
		}
		p.w.pause()
		if p.w.inCallback {
			p.w.overlap = true
		}
		p.w.inside--
	}
}

func (p *envPlugin) err() error {
	if p.fail == errNone {
		return nil
	}
	if p.failE == nil {
		p.failE = envError(p.fail, choose(3))
	}
	return p.failE
}

func (p *envPlugin) Configure(ctx context.Context, req *ConfigureRequest) (*ConfigureResponse, error) {
	p.record(ctx, "Configure", 0, req)
	if e := p.err(); e != nil {
		return nil, e
	}
	return &ConfigureResponse{Events: p.cfgEvents}, nil
}

func (p *envPlugin) Synchronize(ctx context.Context, req *SynchronizeRequest) (*SynchronizeResponse, error) {
	p.record(ctx, "Synchronize", 0, req)
	if p.syncFn != nil {
		return p.syncFn(req)
	}
	if e := p.err(); e != nil {
		return nil, e
	}
	return &SynchronizeResponse{}, nil
}

func (p *envPlugin) Shutdown(ctx context.Context, req *api.Empty) (*api.Empty, error) {
	p.record(ctx, "Shutdown", 0, req)
	return &api.Empty{}, nil
}

func (p *envPlugin) CreateContainer(ctx context.Context, req *CreateContainerRequest) (*CreateContainerResponse, error) {
	p.record(ctx, "CreateContainer", api.Event_CREATE_CONTAINER, req)
	if e := p.err(); e != nil {
		return nil, e
	}
	if p.adjustFn != nil {
		return &CreateContainerResponse{Adjust: p.adjustFn(req), Update: p.update}, nil
	}
	return &CreateContainerResponse{Adjust: p.adjust, Update: p.update}, nil
}

func (p *envPlugin) UpdateContainer(ctx context.Context, req *UpdateContainerRequest) (*UpdateContainerResponse, error) {
	p.record(ctx, "UpdateContainer", api.Event_UPDATE_CONTAINER, req)
	if e := p.err(); e != nil {
		return nil, e
	}
	return &UpdateContainerResponse{Update: p.update}, nil
}

func (p *envPlugin) StopContainer(ctx context.Context, req *StopContainerRequest) (*StopContainerResponse, error) {
	p.record(ctx, "StopContainer", api.Event_STOP_CONTAINER, req)
	if e := p.err(); e != nil {
		return nil, e
	}
	return &StopContainerResponse{Update: p.update}, nil
}

func (p *envPlugin) UpdatePodSandbox(ctx context.Context, req *UpdatePodSandboxRequest) (*UpdatePodSandboxResponse, error) {
	p.record(ctx, "UpdatePodSandbox", api.Event_UPDATE_POD_SANDBOX, req)
	if e := p.err(); e != nil {
		return nil, e
	}
	return &UpdatePodSandboxResponse{}, nil
}

func (p *envPlugin) StateChange(ctx context.Context, evt *StateChangeEvent) (*api.Empty, error) {
	p.record(ctx, "StateChange", evt.Event, evt)
	if e := p.err(); e != nil {
		return nil, e
	}
	return &api.Empty{}, nil
}

// envMux / envListener: the parts of a plugin connection that plugin.close() touches.
type envMux struct{ closed int }

func (m *envMux) Open(multiplex.ConnID) (stdnet.Conn, error) { return nil, errors.New("env mux") }
func (m *envMux) Close() error                                 { m.closed++; return nil }
func (m *envMux) Dialer(multiplex.ConnID) func(string, string) (stdnet.Conn, error) {
	return nil
}
func (m *envMux) Listen(multiplex.ConnID) (stdnet.Listener, error) { return nil, errors.New("env mux") }
func (m *envMux) Trunk() stdnet.Conn                              { return nil }
func (m *envMux) Unblock()                                        {}

type envListener struct{ closed int }

func (l *envListener) Accept() (stdnet.Conn, error) { return nil, errors.New("env listener") }
func (l *envListener) Close() error                 { l.closed++; return nil }
func (l *envListener) Addr() stdnet.Addr            { return nil }

// envRPC returns a ttrpc client/server pair for plugin.close(); under symgo both are nil and their Close
// methods are modelled as no-ops (A-TTRPC).
func envRPC() (*ttrpc.Client, *ttrpc.Server) {
	c1, _ := stdnet.Pipe()
	s, _ := ttrpc.NewServer()
	return ttrpc.NewClient(c1), s
}

// newEnvAdaptation builds an Adaptation with n active external plugins (indices idx[i]) and their env sides.
func newEnvAdaptation(idx []string, masks []EventMask) (*Adaptation, *envWorld, []*envPlugin) {
	w := &envWorld{}
	r := &Adaptation{}
	w.r = r
	var eps []*envPlugin
	for i := range idx {
		ep := &envPlugin{w: w, id: i}
		rpcc, rpcs := envRPC()
		p := &plugin{idx: idx[i], base: "plugin", events: masks[i], r: r, impl: &pluginType{ttrpcImpl: ep},
			mux: &envMux{}, rpcl: &envListener{}, rpcc: rpcc, rpcs: rpcs, closeC: make(chan struct{}), regC: make(chan error, 1)}
		r.plugins = append(r.plugins, p)
		eps = append(eps, ep)
	}
	return r, w, eps
}

func symMask() EventMask {
	m := EventMask(nondetInt32())
	assume(m&^ValidEvents == 0)
	assume(m != 0)
	return m
}
