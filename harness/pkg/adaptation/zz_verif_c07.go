package adaptation

// C07: failing plugins cannot stall, crash or corrupt a request; handler errors veto it.
// C19 (runtime side): unsolicited updates reach the runtime's callback once, unchanged.

import (
	"context"
	"sync"
	"time"

	"github.com/containerd/nri/pkg/api"
)

// H_C07_fail: three subscribed plugins; the plugin at an arbitrary position fails with an arbitrary
// error class (A-TTRPC) on the first request of each of the five request kinds; a second request follows.
//verif:property C07
//verif:instances 5
//verif:preempt 0
//verif:expect-cover fatal veto
func H_C07_fail() {
	r, w, eps := newEnvAdaptation([]string{"00", "05", "10"}, []EventMask{ValidEvents, ValidEvents, ValidEvents})
	pos := choose(3)
	kind := 1 + choose(numErrKinds-1)
	shape("err=" + errKindNames[kind])
	shape("pos=" + itoa(pos))
	eps[pos].fail = kind
	vals := []string{nondetString(), nondetString(), nondetString()}
	keys := []string{"key-a", "key-b", "key-c"}
	for i := range eps {
		eps[i].adjust = &ContainerAdjustment{Annotations: map[string]string{keys[i]: vals[i]}}
	}
	failed := r.plugins[pos]
	k := instance()
	var err error
	var cresp *CreateContainerResponse
	ctx := context.Background()
	method := ""
	switch k {
	case 0:
		method = "CreateContainer"
		cresp, err = r.CreateContainer(ctx, &CreateContainerRequest{Pod: &PodSandbox{}, Container: &Container{Id: "c0"}})
	case 1:
		method = "UpdateContainer"
		var rsp *UpdateContainerResponse
		rsp, err = r.UpdateContainer(ctx, &UpdateContainerRequest{Pod: &PodSandbox{}, Container: &Container{Id: "c0"}})
		if err != nil {
			vassert(rsp == nil, "partial-result-with-error")
		}
	case 2:
		method = "StopContainer"
		var rsp *StopContainerResponse
		rsp, err = r.StopContainer(ctx, &StopContainerRequest{Pod: &PodSandbox{}, Container: &Container{Id: "c0"}})
		if err != nil {
			vassert(rsp == nil, "partial-result-with-error")
		}
	case 3:
		method = "UpdatePodSandbox"
		var rsp *UpdatePodSandboxResponse
		rsp, err = r.UpdatePodSandbox(ctx, &UpdatePodSandboxRequest{Pod: &PodSandbox{}})
		if err != nil {
			vassert(rsp == nil, "partial-result-with-error")
		}
	default:
		method = "StateChange"
		err = r.RunPodSandbox(ctx, &StateChangeEvent{Pod: &PodSandbox{}})
	}
	// every plugin call is made under a per-call timeout context
	for i, c := range w.trace {
		vassert(c.method == method, "wrong-handler")
		vassert(c.ctxs >= i+1, "plugin-called-without-timeout-context")
	}
	if kind == errHandler || kind == errHandlerStatus {
		cover("veto")
		vassert(err != nil, "handler-error-swallowed")
		vassert(err == eps[pos].failE, "handler-error-not-returned-unchanged")
		vassert(cresp == nil, "partial-result-with-error")
		vassert(len(w.trace) == pos+1, "later-plugin-invoked-after-veto")
		vassert(len(r.plugins) == 3, "plugin-dropped-on-handler-error")
		vassert(!failed.closed, "plugin-closed-on-handler-error")
		return
	}
	cover("fatal")
	vassert(err == nil, "fatal-plugin-error-failed-the-request")
	vassert(len(w.trace) == 3, "remaining-plugins-not-invoked")
	for i, c := range w.trace {
		vassert(c.plugin == i, "invocation-order")
	}
	vassert(failed.closed, "failed-plugin-not-closed")
	vassert(len(r.plugins) == 2, "failed-plugin-not-removed")
	for _, p := range r.plugins {
		vassert(p != failed, "failed-plugin-still-active")
		vassert(!p.closed, "healthy-plugin-closed")
	}
	if len(r.plugins) == 2 {
		vassert(r.plugins[0].idx < r.plugins[1].idx, "remaining-plugins-out-of-order")
	}
	if k == 0 {
		vassert(cresp != nil && cresp.Adjust != nil, "no-result")
		if cresp != nil && cresp.Adjust != nil {
			for i := range keys {
				v, ok := cresp.Adjust.Annotations[keys[i]]
				if i == pos {
					vassert(!ok, "failed-plugin-contributed")
				} else {
					vassert(ok, "contribution-of-healthy-plugin-lost")
					vassert(v == vals[i], "contribution-of-healthy-plugin-damaged")
				}
			}
		}
	}
	// the failed plugin receives no further requests
	n0 := len(w.trace)
	err = r.StopPodSandbox(ctx, &StateChangeEvent{Pod: &PodSandbox{}})
	vassert(err == nil, "second-request-failed")
	vassert(len(w.trace) == n0+2, "second-request-dispatch")
	for _, c := range w.trace[n0:] {
		vassert(c.plugin != pos, "failed-plugin-invoked-again")
	}
}

// H_C07_two_failures: two of three plugins fail fatally in the same creation request.
//verif:property C07
//verif:tier thorough
//verif:preempt 0
//verif:expect-cover done
func H_C07_two_failures() {
	r, w, eps := newEnvAdaptation([]string{"00", "05", "10"}, []EventMask{ValidEvents, ValidEvents, ValidEvents})
	healthy := choose(3)
	for i := range eps {
		if i != healthy {
			eps[i].fail = 1 + choose(4)
		}
		eps[i].adjust = &ContainerAdjustment{Env: []*KeyValue{{Key: "K" + itoa(i), Value: nondetString()}}}
	}
	resp, err := r.CreateContainer(context.Background(), &CreateContainerRequest{Pod: &PodSandbox{}, Container: &Container{Id: "c0"}})
	vassert(err == nil, "fatal-plugin-error-failed-the-request")
	vassert(len(w.trace) == 3, "remaining-plugins-not-invoked")
	vassert(len(r.plugins) == 1, "failed-plugins-not-removed")
	vassert(resp != nil && len(resp.Adjust.Env) == 1, "contributions")
	if resp != nil && len(resp.Adjust.Env) == 1 {
		vassert(resp.Adjust.Env[0].Key == "K"+itoa(healthy), "contribution-of-healthy-plugin-lost")
	}
	cover("done")
}

// H_C19_runtime_side: (*plugin).UpdateContainers hands the very update list to the runtime callback,
// exactly once, under the Adaptation lock, and returns its failed list / error unchanged.
//verif:property C19
//verif:preempt 0
//verif:expect-cover ok failed
func H_C19_runtime_side() {
	r, _, _ := newEnvAdaptation([]string{"00"}, []EventMask{ValidEvents})
	calls := 0
	var got []*ContainerUpdate
	locked := false
	n := choose(3)
	var upd []*ContainerUpdate
	for i := 0; i < n; i++ {
		upd = append(upd, &ContainerUpdate{ContainerId: nondetString()})
	}
	var retFailed []*ContainerUpdate
	nf := choose(3)
	for i := 0; i < nf; i++ {
		retFailed = append(retFailed, &ContainerUpdate{ContainerId: nondetString()})
	}
	var retErr error
	if nondetBool() {
		retErr = envError(errHandler, 0)
	}
	r.updateFn = func(ctx context.Context, u []*ContainerUpdate) ([]*ContainerUpdate, error) {
		calls++
		got = u
		locked = heldByMe(&r.Mutex)
		return retFailed, retErr
	}
	rsp, err := r.plugins[0].UpdateContainers(context.Background(), &UpdateContainersRequest{Update: upd})
	vassert(calls == 1, "callback-not-invoked-exactly-once")
	vassert(sameObject(got, upd), "updates-changed")
	vassert(locked, "ghost-callback-without-adaptation-lock")
	vassert(err == retErr, "error-changed")
	vassert(rsp != nil, "no-response")
	if rsp != nil {
		vassert(sameObject(rsp.Failed, retFailed), "failed-list-changed")
	}
	if retErr != nil {
		cover("failed")
	} else {
		cover("ok")
	}
}

// H_C07_timeout_budget: with the request timeout set to 1.5 s and the registration timeout to 7 s, every call
// to a plugin - each of the 14 request kinds, configuration and synchronization - is made under a timeout
// context of exactly the request timeout (so a hung plugin costs one request timeout, not more), and
// configuration tells the plugin both values.
//verif:property C07
//verif:instances 16
//verif:preempt 0
//verif:expect-cover bounded
func H_C07_timeout_budget() {
	const reqT, regT = 1500 * time.Millisecond, 7000 * time.Millisecond
	SetPluginRequestTimeout(reqT)
	SetPluginRegistrationTimeout(regT)
	r, w, _ := newEnvAdaptation([]string{"00", "05"}, []EventMask{ValidEvents, ValidEvents})
	k := instance()
	shape("req=" + itoa(k))
	switch {
	case k < 14:
		_, _, err := issue(r, k)
		vassert(err == nil, "request-error")
	case k == 14:
		err := r.plugins[0].configure(context.Background(), "rt", "1", "cfg")
		vassert(err == nil, "configure-error")
		if len(w.trace) == 1 {
			if req, ok := w.trace[0].arg.(*ConfigureRequest); ok {
				vassert(req.RequestTimeout == 1500 && req.RegistrationTimeout == 7000, "plugin-told-wrong-timeouts")
			}
		}
	default:
		_, err := r.plugins[0].synchronize(context.Background(), []*PodSandbox{{Id: "p"}}, []*Container{{Id: "c"}})
		vassert(err == nil, "synchronize-error")
	}
	vassert(len(w.trace) >= 1, "no-plugin-call")
	for _, c := range w.trace {
		vassert(c.timeout == int64(reqT), "ghost-plugin-call-not-bounded-by-the-request-timeout")
	}
	cover("bounded")
}

// H_C19_no_overlap: one goroutine issues a request of kind k (the nine state-change wrappers, the four
// request RPCs, a raw StateChange) to an Adaptation with one subscribed plugin whose handler contains a
// scheduling point; concurrently a plugin relays an unsolicited update whose runtime callback also contains
// a scheduling point. On every explored schedule (preemption bound 2) the callback never runs while the
// request's plugin handler is running and no handler starts while the callback runs.
//verif:property C19
//verif:instances 14
//verif:preempt 2
//verif:expect-cover both-ran
func H_C19_no_overlap() {
	r, w, _ := newEnvAdaptation([]string{"00"}, []EventMask{ValidEvents})
	w.yield = &sync.Mutex{}
	k := instance()
	shape("req=" + itoa(k))
	calls := 0
	r.updateFn = func(ctx context.Context, u []*ContainerUpdate) ([]*ContainerUpdate, error) {
		calls++
		w.inCallback = true
		if w.inside > 0 {
			w.overlap = true
		}
		w.pause()
		if w.inside > 0 {
			w.overlap = true
		}
		w.inCallback = false
		return nil, nil
	}
	var wg sync.WaitGroup
	wg.Add(2)
	go func() {
		issue(r, k)
		wg.Done()
	}()
	go func() {
		r.plugins[0].UpdateContainers(context.Background(), &UpdateContainersRequest{Update: []*ContainerUpdate{{ContainerId: "c1"}}})
		wg.Done()
	}()
	wg.Wait()
	vassert(calls == 1, "callback-not-invoked-exactly-once")
	vassert(!w.overlap, "update-callback-overlaps-request-processing")
	if len(w.trace) > 0 {
		cover("both-ran")
	}
}

// H_C06_two_callers: two goroutines issue requests of different kinds concurrently; two plugins subscribed to
// everything, handlers with a scheduling point. On every explored schedule (preemption bound 2) the requests
// never overlap inside plugin handlers and both plugins see the two requests in the same order.
//verif:property C06
//verif:instances 14
//verif:preempt 2
//verif:expect-cover ordered
func H_C06_two_callers() {
	r, w, _ := newEnvAdaptation([]string{"00", "05"}, []EventMask{ValidEvents, ValidEvents})
	w.yield = &sync.Mutex{}
	k1 := instance()
	if k1 == 13 {
		k1 = 0
	}
	k2 := (k1 + 1 + choose(2)*4) % 13
	shape("req=" + itoa(k1))
	var ev [2]api.Event
	var wg sync.WaitGroup
	wg.Add(2)
	go func() {
		ev[0], _, _ = issue(r, k1)
		wg.Done()
	}()
	go func() {
		ev[1], _, _ = issue(r, k2)
		wg.Done()
	}()
	wg.Wait()
	vassert(w.maxIn <= 1, "requests-overlap-inside-plugin-handlers")
	vassert(len(w.trace) == 4, "each-plugin-called-once-per-request")
	if len(w.trace) == 4 {
		// plugin 0 and plugin 1 see the two requests in one common order
		var seen [2][]api.Event
		for _, c := range w.trace {
			seen[c.plugin] = append(seen[c.plugin], c.event)
		}
		vassert(len(seen[0]) == 2 && len(seen[1]) == 2, "each-plugin-called-once-per-request")
		if len(seen[0]) == 2 && len(seen[1]) == 2 {
			vassert(seen[0][0] == seen[1][0] && seen[0][1] == seen[1][1], "plugins-see-requests-in-different-orders")
		}
		cover("ordered")
	}
}

// H_C06_two_creates: two runtime goroutines create containers "ca" and "cb" concurrently; both plugins answer
// with an annotation naming the container of the request they were shown. Whatever the interleaving
// (preemption bound 2, handlers contain a scheduling point), each caller gets the result computed from its
// own request and the responses to it only: both plugins' annotations, naming its own container.
//verif:property C06
//verif:preempt 2
//verif:expect-cover done
func H_C06_two_creates() {
	r, w, eps := newEnvAdaptation([]string{"00", "05"}, []EventMask{ValidEvents, ValidEvents})
	w.yield = &sync.Mutex{}
	for i := range eps {
		key := "from-plugin-" + itoa(i)
		eps[i].adjustFn = func(req *CreateContainerRequest) *ContainerAdjustment {
			return &ContainerAdjustment{Annotations: map[string]string{key: req.Container.Id}}
		}
	}
	ids := [2]string{"ca", "cb"}
	var rsp [2]*CreateContainerResponse
	var errs [2]error
	var wg sync.WaitGroup
	wg.Add(2)
	for i := 0; i < 2; i++ {
		i := i
		go func() {
			rsp[i], errs[i] = r.CreateContainer(context.Background(), &CreateContainerRequest{Pod: &PodSandbox{}, Container: &Container{Id: ids[i]}})
			wg.Done()
		}()
	}
	wg.Wait()
	for i := 0; i < 2; i++ {
		vassert(errs[i] == nil && rsp[i] != nil && rsp[i].Adjust != nil, "request-error")
		if errs[i] != nil || rsp[i] == nil || rsp[i].Adjust == nil {
			return
		}
		a := rsp[i].Adjust.Annotations
		vassert(len(a) == 2, "result-mixes-responses-to-another-request")
		vassert(a["from-plugin-a"] == ids[i] && a["from-plugin-b"] == ids[i], "caller-got-a-result-computed-from-another-request")
	}
	vassert(w.maxIn <= 1, "requests-overlap-inside-plugin-handlers")
	cover("done")
}
