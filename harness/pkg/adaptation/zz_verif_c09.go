package adaptation

// C09: synchronization delivers the runtime's complete state however it must be split.
// Sender: the real (*plugin).synchronize + recalcObjsPerSyncMsg (float64 arithmetic in the FP theory).
// Receiver: the real stub (Synchronize/collectSync/deliverSync) reached through an environment transport that
// rejects a message iff the sum of its objects' sizes exceeds ttrpc's limit, with ttrpc's own error value.

import (
	"context"

	"github.com/containerd/ttrpc"

	"github.com/containerd/nri/pkg/api"
	"github.com/containerd/nri/pkg/stub"
)

type syncHandler struct {
	calls int
	pods  []*api.PodSandbox
	ctrs  []*api.Container
	ret   []*api.ContainerUpdate
}

func (h *syncHandler) Synchronize(ctx context.Context, pods []*api.PodSandbox, ctrs []*api.Container) ([]*api.ContainerUpdate, error) {
	h.calls++
	h.pods, h.ctrs = pods, ctrs
	return h.ret, nil
}
func (h *syncHandler) RunPodSandbox(context.Context, *api.PodSandbox) error { return nil }

type syncTransport struct {
	svc      api.PluginService
	msgs     int
	mores    []bool
	rejected int
}

// the encoded size of an object is carried in its (otherwise unused here) Pid field
func (t *syncTransport) send(req *SynchronizeRequest) (*SynchronizeResponse, error) {
	total := 0
	for _, p := range req.Pods {
		if p != nil {
			total += int(p.Pid)
		}
	}
	for _, c := range req.Containers {
		if c != nil {
			total += int(c.Pid)
		}
	}
	if err := ttrpc.OversizedMessageError(total); err != nil {
		t.rejected++
		return nil, err
	}
	t.msgs++
	t.mores = append(t.mores, req.More)
	if req.More && len(req.Pods)+len(req.Containers) == 0 {
		// an empty message that announces more: the sender makes no progress (it would spin until the
		// request timeout): reported, and modelled as the timeout striking
		vassert(false, "sync-stalls-on-empty-messages")
		return nil, context.DeadlineExceeded
	}
	return t.svc.Synchronize(context.Background(), req)
}

const ttrpcMax = 4 << 20

// rhSyncRun: np pods and nc containers with symbolic sizes; spare = extra capacity of the runtime's slices.
func rhSyncRun(np, nc, spare int) {
	h := &syncHandler{ret: []*api.ContainerUpdate{{ContainerId: "u"}}}
	st, err := stub.New(h, stub.WithPluginName("plugin"), stub.WithPluginIdx("00"))
	assume(err == nil)
	t := &syncTransport{svc: st.(api.PluginService)}
	r, _, eps := newEnvAdaptation([]string{"00"}, []EventMask{ValidEvents})
	eps[0].syncFn = t.send
	p := r.plugins[0]

	pods := make([]*PodSandbox, np, np+spare)
	for i := range pods {
		sz := nondetUint32()
		assume(sz >= 1)
		assume(sz <= ttrpcMax)
		pods[i] = &PodSandbox{Id: "pod", Pid: sz}
	}
	ctrs := make([]*Container, nc, nc+spare)
	for i := range ctrs {
		sz := nondetUint32()
		assume(sz >= 1)
		assume(sz <= ttrpcMax)
		ctrs[i] = &Container{Id: "ctr", Pid: sz}
	}
	us, serr := p.synchronize(context.Background(), pods, ctrs)
	if serr != nil {
		cover("failed-cleanly")
		vassert(p.closed, "failed-sync-leaves-plugin-open")
		vassert(us == nil, "updates-with-error")
		return
	}
	cover("delivered")
	if t.rejected > 0 {
		cover("split")
	}
	vassert(h.calls == 1, "handler-not-invoked-exactly-once")
	vassert(len(h.pods) == np, "pods-count")
	vassert(len(h.ctrs) == nc, "containers-count")
	if len(h.pods) == np {
		for i := range pods {
			vassert(h.pods[i] == pods[i], "pods-content-or-order")
		}
	}
	if len(h.ctrs) == nc {
		for i := range ctrs {
			vassert(h.ctrs[i] == ctrs[i], "containers-content-or-order")
		}
	}
	vassert(sameObject(us, h.ret), "updates-lost")
	for i, m := range t.mores {
		vassert(m == (i < len(t.mores)-1), "more-flag")
	}
}

// H_C09_sync: instance = number of pods (0..3) x number of containers (0,1,4,5,8,9).
//verif:property C09
//verif:instances 24
//verif:preempt 0
//verif:cut github.com/containerd/nri/pkg/adaptation.recalcObjsPerSyncMsg => verifRecalc
//verif:replay-with-cuts
//verif:expect-cover delivered split
func H_C09_sync() {
	ncs := [...]int{0, 1, 4, 5, 8, 9}
	np, nc := instance()/6, ncs[instance()%6]
	shape("pods=" + itoa(np))
	shape("ctrs=" + itoa(nc))
	rhSyncRun(np, nc, choose(2)*4)
}

// verifRecalc abstracts recalcObjsPerSyncMsg for the loop harness by its contract, which
// H_C09_chunk_arithmetic decides on the real function (float64 arithmetic in the FP theory): on an
// oversized-message error with more than 8 objects per message the new counts are arbitrary values with
// 0 <= p <= pods, 0 <= c <= ctrs, p+c < pods+ctrs, replaced by 4+4 when they sum to less than 8.
func verifRecalc(pods, ctrs int, err error) (int, int, error) {
	if pods+ctrs <= 8 {
		return pods, ctrs, ttrpc.ErrProtocol
	}
	p, c := nondetInt(), nondetInt()
	assume(p >= 0)
	assume(c >= 0)
	assume(p <= pods)
	assume(c <= ctrs)
	assume(p+c < pods+ctrs)
	if p+c < 8 {
		p, c = 4, 4
	}
	return p, c, nil
}

// H_C09_chunk_arithmetic: the chunk size computed from a rejection is within [0, n] and smaller than n, for
// every n up to 4096 and every rejected length above the limit (exact float64 semantics).
//verif:property C09
//verif:qtimeout 240000
//verif:expect-cover done
func H_C09_chunk_arithmetic() {
	pods, ctrs := nondetInt(), nondetInt()
	assume(pods >= 0)
	assume(ctrs >= 0)
	assume(pods <= 4096)
	assume(ctrs <= 4096)
	l := nondetInt()
	assume(l > ttrpcMax)
	assume(l <= 1<<32)
	err := ttrpc.OversizedMessageError(l)
	np, nc, rerr := recalcObjsPerSyncMsg(pods, ctrs, err)
	if pods+ctrs <= 8 {
		vassert(rerr != nil, "minimum-chunk-retry")
		return
	}
	vassert(rerr == nil, "recalc-error")
	vassert(np >= 0 && nc >= 0, "negative-chunk")
	vassert(np+nc >= 8 || (np <= pods && nc <= ctrs), "chunk-grew")
	vassert(np+nc < pods+ctrs, "chunk-did-not-shrink")
	cover("done")
}

// rhSyncProfile: as rhSyncRun with the real recalcObjsPerSyncMsg and concrete object sizes (so that its
// float64 arithmetic folds to constants): end-to-end runs of the real sender against the real receiver.
var c09TailN int
var c09TailSize uint32

func rhSyncProfile(np, nc int, podSize, ctrSize uint32, spare int) {
	h := &syncHandler{ret: []*api.ContainerUpdate{{ContainerId: "u"}}}
	st, err := stub.New(h, stub.WithPluginName("plugin"), stub.WithPluginIdx("00"))
	assume(err == nil)
	t := &syncTransport{svc: st.(api.PluginService)}
	r, _, eps := newEnvAdaptation([]string{"00"}, []EventMask{ValidEvents})
	eps[0].syncFn = t.send
	p := r.plugins[0]
	pods := make([]*PodSandbox, np, np+spare)
	for i := range pods {
		pods[i] = &PodSandbox{Id: "pod", Pid: podSize}
	}
	ctrs := make([]*Container, nc, nc+spare)
	for i := range ctrs {
		ctrs[i] = &Container{Id: "ctr", Pid: ctrSize}
	}
	for i := 0; i < c09TailN; i++ {
		// mixed sizes: the large objects come last, so the rejection happens after earlier chunks got through
		ctrs = append(ctrs, &Container{Id: "big", Pid: c09TailSize})
	}
	nc = len(ctrs)
	us, serr := p.synchronize(context.Background(), pods, ctrs)
	if serr != nil {
		cover("failed-cleanly")
		vassert(p.closed, "failed-sync-leaves-plugin-open")
		return
	}
	cover("delivered")
	vassert(h.calls == 1, "handler-not-invoked-exactly-once")
	vassert(len(h.pods) == np && len(h.ctrs) == nc, "object-count")
	if len(h.pods) == np {
		for i := range pods {
			vassert(h.pods[i] == pods[i], "pods-content-or-order")
		}
	}
	if len(h.ctrs) == nc {
		for i := range ctrs {
			vassert(h.ctrs[i] == ctrs[i], "containers-content-or-order")
		}
	}
	vassert(sameObject(us, h.ret), "updates-lost")
	for i, m := range t.mores {
		vassert(m == (i < len(t.mores)-1), "more-flag")
	}
}

// H_C09_sync_profiles: pod/container counts x size profiles (KiB): small, 300K, 600K, 1.1M, 2.1M, 4M.
//verif:property C09
//verif:instances 36
//verif:preempt 0
//verif:expect-cover delivered failed-cleanly
func H_C09_sync_profiles() { syncProfiles() }

// H_C08_snapshot_complete: the same profiles seen from C08: the snapshot a registering plugin receives contains
// every container of the runtime exactly once also when it has to be split over several messages.
//verif:property C08
//verif:instances 36
//verif:preempt 0
//verif:expect-cover delivered failed-cleanly
func H_C08_snapshot_complete() { syncProfiles() }

func syncProfiles() {
	sizes := [...]uint32{1, 300 << 10, 600 << 10, 1100 << 10, 2100 << 10, 4 << 20}
	nps := [...]int{0, 1, 2, 5, 9, 30}
	i := instance()
	np := nps[i/6]
	cs := sizes[i%6]
	nc := [...]int{0, 3, 7, 9, 20, 40}[choose(6)]
	ps := sizes[choose(6)]
	shape("pods=" + itoa(np))
	rhSyncProfile(np, nc, ps, cs, choose(2)*4)
}

// H_C09_sync_large_tail: mixed object sizes with the large ones last (2 or 6 tiny pods, 10 or 40 tiny
// containers, then 5 or 12 containers of 600 KiB or 1.1 MiB): the first chunks get through, a later one is
// rejected when few objects are left, the chunk size is recomputed (and raised to the 4+4 minimum) against
// what is left. Real recalcObjsPerSyncMsg, real stub receiver.
//verif:property C09
//verif:instances 16
//verif:preempt 0
//verif:expect-cover delivered
func H_C09_sync_large_tail() {
	i := instance()
	np := [...]int{2, 6}[i&1]
	nc := [...]int{10, 40}[(i>>1)&1]
	c09TailN = [...]int{5, 12}[(i>>2)&1]
	c09TailSize = [...]uint32{600 << 10, 1100 << 10}[(i>>3)&1]
	rhSyncProfile(np, nc, 1, 1, choose(2)*4)
}
