package adaptation

// C05: updates are collected once per target with exactly the fields set.
// The real collect*Result / apply / *ContainerResponse code is compared, entry by entry and
// field by field, with a reference fold written from the statement.

import "github.com/containerd/nri/pkg/api"

// scalar resource fields (one owner each)
var scalarFams = [...]int{famMemLimit, famMemReservation, famMemSwap, famMemKernel, famMemKernelTcp, famMemSwappiness,
	famMemDisableOom, famMemUseHierarchy, famCpuShares, famCpuQuota, famCpuPeriod, famCpuRtRuntime, famCpuRtPeriod,
	famCpuCpus, famCpuMems, famPids, famBlockio, famRdt}

func famIsString(f int) bool {
	return f == famCpuCpus || f == famCpuMems || f == famBlockio || f == famRdt
}

// fval is the value of one scalar field: absent, or a number / string.
type fval struct {
	present bool
	num     int64
	str     string
}

// getField reads scalar field f from a LinuxResources (nil-safe).
func getField(res *LinuxResources, f int) fval {
	if res == nil {
		return fval{}
	}
	mem, cpu := res.Memory, res.Cpu
	switch f {
	case famMemLimit:
		if mem != nil && mem.Limit != nil {
			return fval{present: true, num: mem.Limit.Value}
		}
	case famMemReservation:
		if mem != nil && mem.Reservation != nil {
			return fval{present: true, num: mem.Reservation.Value}
		}
	case famMemSwap:
		if mem != nil && mem.Swap != nil {
			return fval{present: true, num: mem.Swap.Value}
		}
	case famMemKernel:
		if mem != nil && mem.Kernel != nil {
			return fval{present: true, num: mem.Kernel.Value}
		}
	case famMemKernelTcp:
		if mem != nil && mem.KernelTcp != nil {
			return fval{present: true, num: mem.KernelTcp.Value}
		}
	case famMemSwappiness:
		if mem != nil && mem.Swappiness != nil {
			return fval{present: true, num: int64(mem.Swappiness.Value)}
		}
	case famMemDisableOom:
		if mem != nil && mem.DisableOomKiller != nil {
			return fval{present: true, num: ifInt(mem.DisableOomKiller.Value, 1, 0)}
		}
	case famMemUseHierarchy:
		if mem != nil && mem.UseHierarchy != nil {
			return fval{present: true, num: ifInt(mem.UseHierarchy.Value, 1, 0)}
		}
	case famCpuShares:
		if cpu != nil && cpu.Shares != nil {
			return fval{present: true, num: int64(cpu.Shares.Value)}
		}
	case famCpuQuota:
		if cpu != nil && cpu.Quota != nil {
			return fval{present: true, num: cpu.Quota.Value}
		}
	case famCpuPeriod:
		if cpu != nil && cpu.Period != nil {
			return fval{present: true, num: int64(cpu.Period.Value)}
		}
	case famCpuRtRuntime:
		if cpu != nil && cpu.RealtimeRuntime != nil {
			return fval{present: true, num: cpu.RealtimeRuntime.Value}
		}
	case famCpuRtPeriod:
		if cpu != nil && cpu.RealtimePeriod != nil {
			return fval{present: true, num: int64(cpu.RealtimePeriod.Value)}
		}
	case famCpuCpus:
		// "" means unset for the two cpuset strings
		if cpu != nil {
			return fval{present: true, str: cpu.Cpus}
		}
		return fval{present: true}
	case famCpuMems:
		if cpu != nil {
			return fval{present: true, str: cpu.Mems}
		}
		return fval{present: true}
	case famPids:
		if res.Pids != nil {
			return fval{present: true, num: res.Pids.Limit}
		}
	case famBlockio:
		if res.BlockioClass != nil {
			return fval{present: true, str: res.BlockioClass.Value}
		}
	case famRdt:
		if res.RdtClass != nil {
			return fval{present: true, str: res.RdtClass.Value}
		}
	}
	return fval{}
}

// setField writes scalar field f into res.
func setField(res *LinuxResources, f int, num int64, str string) {
	buildInto(res, f, sItem{num: num, val: str})
}

func buildInto(res *LinuxResources, f int, it sItem) {
	switch f {
	case famMemLimit, famMemReservation, famMemSwap, famMemKernel, famMemKernelTcp, famMemSwappiness, famMemDisableOom, famMemUseHierarchy:
		if res.Memory == nil {
			res.Memory = &LinuxMemory{}
		}
	case famCpuShares, famCpuQuota, famCpuPeriod, famCpuRtRuntime, famCpuRtPeriod, famCpuCpus, famCpuMems:
		if res.Cpu == nil {
			res.Cpu = &LinuxCPU{}
		}
	}
	switch f {
	case famMemLimit:
		res.Memory.Limit = optI64(it.num)
	case famMemReservation:
		res.Memory.Reservation = optI64(it.num)
	case famMemSwap:
		res.Memory.Swap = optI64(it.num)
	case famMemKernel:
		res.Memory.Kernel = optI64(it.num)
	case famMemKernelTcp:
		res.Memory.KernelTcp = optI64(it.num)
	case famMemSwappiness:
		res.Memory.Swappiness = optU64(it.num)
	case famMemDisableOom:
		res.Memory.DisableOomKiller = optBool(it.num)
	case famMemUseHierarchy:
		res.Memory.UseHierarchy = optBool(it.num)
	case famCpuShares:
		res.Cpu.Shares = optU64(it.num)
	case famCpuQuota:
		res.Cpu.Quota = optI64(it.num)
	case famCpuPeriod:
		res.Cpu.Period = optU64(it.num)
	case famCpuRtRuntime:
		res.Cpu.RealtimeRuntime = optI64(it.num)
	case famCpuRtPeriod:
		res.Cpu.RealtimePeriod = optU64(it.num)
	case famCpuCpus:
		res.Cpu.Cpus = it.val
	case famCpuMems:
		res.Cpu.Mems = it.val
	case famPids:
		res.Pids = &api.LinuxPids{Limit: it.num}
	case famBlockio:
		res.BlockioClass = optStr(it.val)
	case famRdt:
		res.RdtClass = optStr(it.val)
	}
}

// normalised value of a field as the code stores it (bools are 0/1)
func normNum(f int, n int64) int64 {
	if f == famMemDisableOom || f == famMemUseHierarchy {
		return n & 1
	}
	return n
}

// symUpdate: one symbolic update touching a subset of the two active fields.
type symUpd struct {
	target string
	ignore bool
	set    [2]bool
	num    [2]int64
	str    [2]string
}

func newSymUpd(fams [2]int) symUpd {
	u := symUpd{target: nondetString(), ignore: nondetBool()}
	for i := 0; i < 2; i++ {
		if fams[0] == fams[1] && i == 1 {
			break
		}
		if nondetBool() {
			u.set[i] = true
			if famIsString(fams[i]) {
				u.str[i] = nondetString()
				if fams[i] == famCpuCpus || fams[i] == famCpuMems {
					assume(u.str[i] != "") // "" means "not set" for the cpuset strings
				}
			} else {
				u.num[i] = nondetInt64()
			}
		}
	}
	return u
}

func (u symUpd) build(fams [2]int) *ContainerUpdate {
	cu := &ContainerUpdate{ContainerId: u.target, IgnoreFailure: u.ignore}
	if !u.set[0] && !u.set[1] {
		switch choose(3) {
		case 0:
			return cu // no Linux section at all
		case 1:
			cu.Linux = &LinuxContainerUpdate{}
			return cu
		}
	}
	res := &LinuxResources{}
	for i := 0; i < 2; i++ {
		if u.set[i] {
			setField(res, fams[i], u.num[i], u.str[i])
		}
	}
	cu.Linux = &LinuxContainerUpdate{Resources: res}
	return cu
}

// refEntry: reference state of one target container.
type refEntry struct {
	target string
	own    bool
	val    [2]fval
	owner  [2]string
	hasOwn [2]bool
}

// rhC05Run runs nPlugins plugins with nUpd[j] updates each on the two active scalar fields fams.
// c05CheckView: when set (C04), after every plugin the resources the next plugin would be shown for the
// container being updated must equal the runtime's request overlaid with the successful updates so far.
var c05CheckView bool

func rhC05Run(kind int, fams [2]int, nUpd []int) {
	shape("req=" + reqNames[kind])
	shape("fields=" + famNames[fams[0]] + "+" + famNames[fams[1]])
	var r *result
	own := ""
	var reqVal [2]fval
	switch kind {
	case reqCreate:
		req := symOriginal(fams[0])
		r, own = collectCreateContainerResult(req), req.Container.Id
	case reqUpdate:
		own = nondetString()
		req := &UpdateContainerRequest{Container: &Container{Id: own}, Pod: &PodSandbox{}}
		if nondetBool() {
			req.LinuxResources = &LinuxResources{}
			for i := 0; i < 2; i++ {
				if fams[0] == fams[1] && i == 1 {
					break
				}
				if nondetBool() {
					n, s := nondetInt64(), ""
					if famIsString(fams[i]) {
						s = nondetString()
					}
					setField(req.LinuxResources, fams[i], n, s)
					reqVal[i] = fval{present: true, num: normNum(fams[i], n), str: s}
					if famIsString(fams[i]) {
						reqVal[i].num = 0
					}
				}
			}
		}
		r = collectUpdateContainerResult(req)
	default:
		r = collectStopContainerResult()
	}
	ps := symPlugins(len(nUpd))

	// reference state
	var entries []*refEntry
	find := func(t string) *refEntry {
		for _, en := range entries {
			if en.target == t {
				return en
			}
		}
		return nil
	}
	failed := false

	for j := range nUpd {
		var us []*ContainerUpdate
		var sus []symUpd
		for k := 0; k < nUpd[j]; k++ {
			su := newSymUpd(fams)
			sus = append(sus, su)
			us = append(us, su.build(fams))
		}
		// ---- reference fold for plugin j ----
		expErr := false
		for _, su := range sus {
			if kind == reqCreate && su.target == own {
				expErr = true // update of the container being created
				break
			}
			en := find(su.target)
			if en == nil {
				en = &refEntry{target: su.target, own: kind == reqUpdate && su.target == own}
				if en.own {
					en.val = reqVal
				}
				entries = append(entries, en)
			}
			// conflict check over the fields this update sets (A-WF: a plugin does not set the same
			// field of the same target twice; assumed below)
			conflict := false
			for i := 0; i < 2; i++ {
				if su.set[i] && en.hasOwn[i] {
					if en.owner[i] == ps[j] {
						assume(false) // same plugin setting a field twice: outside A-WF
					}
					conflict = true
				}
			}
			if conflict {
				if su.ignore {
					shape("dropped")
					continue // dropped in its entirety
				}
				expErr = true
				break
			}
			for i := 0; i < 2; i++ {
				if su.set[i] {
					en.hasOwn[i], en.owner[i] = true, ps[j]
					en.val[i] = fval{present: true, num: normNum(fams[i], su.num[i]), str: su.str[i]}
				}
			}
		}
		// ---- real code ----
		err := r.apply(wrapUpdates(kind, us), ps[j])
		if expErr {
			cover("expected-failure")
			vassert(err != nil, "request-should-fail")
			failed = true
			break
		}
		vassert(err == nil, "request-should-succeed")
		if err != nil {
			return
		}
		if c05CheckView && kind == reqUpdate {
			want := reqVal
			if en := find(own); en != nil {
				want = en.val
			}
			view := r.request.update.LinuxResources
			for i := 0; i < 2; i++ {
				if fams[0] == fams[1] && i == 1 {
					break
				}
				g := getField(view, fams[i])
				if fams[i] == famCpuCpus || fams[i] == famCpuMems {
					ws := ""
					if want[i].present {
						ws = want[i].str
					}
					vassert(g.str == ws, "view-field-value")
					continue
				}
				vassert(g.present == want[i].present, "view-field-presence")
				if g.present && want[i].present {
					if famIsString(fams[i]) {
						vassert(g.str == want[i].str, "view-field-value")
					} else {
						vassert(g.num == want[i].num, "view-field-value")
					}
				}
			}
			cover("view-checked")
		}
	}
	if failed {
		return
	}
	cover("collected")

	// ---- compare the reply with the reference ----
	var got []*ContainerUpdate
	switch kind {
	case reqCreate:
		got = r.createContainerResponse().Update
	case reqUpdate:
		got = r.updateContainerResponse().Update
	default:
		got = r.stopContainerResponse().Update
	}
	// expected order: third-party targets in first-touch order, then (update requests) the own container
	var exp []*refEntry
	var ownEntry *refEntry
	for _, en := range entries {
		if en.own {
			ownEntry = en
		} else {
			exp = append(exp, en)
		}
	}
	wantLen := len(exp)
	if kind == reqUpdate {
		wantLen++
	}
	vassert(len(got) == wantLen, "one-entry-per-target")
	if len(got) != wantLen {
		return
	}
	for i, en := range exp {
		checkEntry(got[i], en, fams, false)
	}
	if kind == reqUpdate {
		last := got[len(got)-1]
		if ownEntry == nil {
			// untouched: empty placeholder
			if last != nil {
				vassert(last.ContainerId == own || last.ContainerId == "", "placeholder-id")
				checkNoFields(last, [2]int{-1, -1})
			}
		} else {
			cover("own-last")
			changed := ownEntry.hasOwn[0] || ownEntry.hasOwn[1]
			checkEntry(last, ownEntry, fams, !changed)
		}
	}
}

// lenient: the entry belongs to the request's own container and no plugin changed any field of it;
// the statement asks for an empty placeholder, the runtime's own values are tolerated as well.
func checkEntry(u *ContainerUpdate, en *refEntry, fams [2]int, lenient bool) {
	vassert(u != nil, "entry-nil")
	if u == nil {
		return
	}
	vassert(u.ContainerId == en.target, "entry-target")
	var res *LinuxResources
	if u.Linux != nil {
		res = u.Linux.Resources
	}
	for i := 0; i < 2; i++ {
		if fams[0] == fams[1] && i == 1 {
			break
		}
		g := getField(res, fams[i])
		w := en.val[i]
		if fams[i] == famCpuCpus || fams[i] == famCpuMems {
			// "" == unset
			ws := ""
			if w.present {
				ws = w.str
			}
			if lenient {
				vassert(bor(g.str == ws, g.str == ""), "field-value")
			} else {
				vassert(g.str == ws, "field-value")
			}
			continue
		}
		if lenient {
			if g.present {
				vassert(w.present, "field-presence")
			}
		} else {
			vassert(g.present == w.present, "field-presence")
		}
		if g.present && w.present {
			if famIsString(fams[i]) {
				vassert(g.str == w.str, "field-value")
			} else {
				vassert(g.num == w.num, "field-value")
			}
		}
	}
	checkNoFields(u, fams)
}

// checkNoFields: every scalar field other than the active ones is unset, no hugepage/unified entries.
func checkNoFields(u *ContainerUpdate, fams [2]int) {
	if u == nil || u.Linux == nil || u.Linux.Resources == nil {
		return
	}
	res := u.Linux.Resources
	for _, f := range scalarFams {
		if f == fams[0] || f == fams[1] {
			continue
		}
		g := getField(res, f)
		if f == famCpuCpus || f == famCpuMems {
			vassert(g.str == "", "extra-field")
		} else {
			vassert(!g.present, "extra-field")
		}
	}
	vassert(len(res.HugepageLimits) == 0, "extra-hugepage")
	vassert(len(res.Unified) == 0, "extra-unified")
}

// instance -> (kind, field pair). Pairs: (f, f) singles and (f, next) neighbours = 36 per kind.
func c05Instance(i int) (int, [2]int) {
	kind := i / 36
	j := i % 36
	if j < 18 {
		return kind, [2]int{scalarFams[j], scalarFams[j]}
	}
	j -= 18
	return kind, [2]int{scalarFams[j], scalarFams[(j+5)%18]}
}

// H_C05_fold2q: two plugins, one update each; every single field and 3 field pairs per request kind.
//verif:property C05
//verif:instances 108
//verif:tier quick
//verif:quick-instances 0 1 2 3 4 5 6 7 8 9 10 11 12 13 14 15 16 17 36 37 38 39 40 41 42 43 44 45 46 47 48 49 50 51 52 53 72 73 74 75 76 77 78 79 80 81 82 83 84 85 86 87 88 89 18 26 33 54 62 69 90 98 105
//verif:expect-cover collected expected-failure own-last
func H_C05_fold2q() {
	k, f := c05Instance(instance())
	rhC05Run(k, f, []int{1, 1})
}

// H_C05_fold2: two plugins (1 and 2 updates): 5 single fields and 3 field pairs in creation requests, 1 pair
// in update requests, 2 pairs in stop requests (the full 108 instances take about 90 minutes on 16 cores).
//verif:property C05
//verif:instances 108
//verif:thorough-instances 0 4 8 12 16 18 24 30 54 90 96
//verif:tier thorough
//verif:expect-cover collected expected-failure own-last
func H_C05_fold2() {
	k, f := c05Instance(instance())
	rhC05Run(k, f, []int{1, 2})
}

// H_C05_fold3: three plugins (1,2,1 updates). Not part of any tier: one instance takes more than 7 minutes on
// 16 cores (run it with `symgo run --property C05 --tier off --harness H_C05_fold3 --instance N`).
//verif:property C05
//verif:instances 108
//verif:tier off
//verif:expect-cover collected expected-failure own-last
func H_C05_fold3() {
	k, f := c05Instance(instance())
	rhC05Run(k, f, []int{1, 2, 1})
}

// H_C04_update_view: update requests: the resources shown to the next plugin = the runtime's request overlaid
// with the successful updates of earlier plugins (a dropped ignore-failure update leaves no trace).
//verif:property C04
//verif:instances 108
//verif:quick-instances 54 55 62 69
//verif:expect-cover view-checked
func H_C04_update_view() {
	c05CheckView = true
	k, f := c05Instance(instance())
	rhC05Run(k, f, []int{1, 1})
}

// ---- a dropped ignore-failure update leaves nothing behind, not even ownership ----

var dropFams = [...]int{famMemLimit, famMemReservation, famMemSwap, famMemKernel, famMemKernelTcp, famMemSwappiness,
	famMemDisableOom, famMemUseHierarchy, famCpuShares, famCpuQuota, famCpuPeriod, famCpuRtRuntime, famCpuRtPeriod,
	famCpuCpus, famCpuMems, famBlockio, famRdt, famHugepage, famUnified}

func oneItem(f int) []sItem {
	it := sItem{key: nondetString(), val: nondetString(), num: nondetInt64()}
	if f == famCpuCpus || f == famCpuMems {
		assume(it.val != "")
	}
	return []sItem{it}
}

// H_C05_dropped_update_leaves_no_claim: plugin A sets the pids limit of container t; plugin B sends an
// ignore-failure update of t that sets field f (one of 19: every scalar resource field, a hugepage limit, a
// unified key) and the pids limit - it conflicts and is dropped in its entirety; then B again or a third plugin
// sets f on t. That last update must succeed (nobody set f), and the entry for t carries A's pids limit and
// the last update's f. B's response also carries a second update, of another container, after the dropped
// one: it is collected as usual. All three request kinds.
//verif:property C05
//verif:instances 19
//verif:expect-cover done
func H_C05_dropped_update_leaves_no_claim() {
	f := dropFams[instance()]
	shape("fam=" + famNames[f])
	kind := choose(3)
	shape("req=" + reqNames[kind])
	r, own := symUpdateResult(kind, f, 0)
	ps := symPlugins(3)
	t := nondetString()
	assume(t != own) // the own container of create/update requests is handled by the fold harnesses
	pidsA, pidsB := nondetInt64(), nondetInt64()
	resA := &LinuxResources{Pids: &api.LinuxPids{Limit: pidsA}}
	itB := oneItem(f)
	var itA []sItem
	if f == famHugepage || f == famUnified {
		// A also owns another page size / unified key, so that the ownership map of the family already exists
		// when B's update is rolled back
		itA = oneItem(f)
		assume(itA[0].key != itB[0].key)
		ra := buildResources(f, itA)
		resA.HugepageLimits, resA.Unified = ra.HugepageLimits, ra.Unified
	}
	uA := &ContainerUpdate{ContainerId: t, Linux: &LinuxContainerUpdate{Resources: resA}}
	err := r.apply(wrapUpdates(kind, []*ContainerUpdate{uA}), ps[0])
	vassert(err == nil, "first-update-rejected")
	resB := buildResources(f, itB)
	resB.Pids = &api.LinuxPids{Limit: pidsB}
	uB := &ContainerUpdate{ContainerId: t, Linux: &LinuxContainerUpdate{Resources: resB}, IgnoreFailure: true}
	// the same response carries a second, unrelated update (of another container): it must not be lost
	t2, pids2 := nondetString(), nondetInt64()
	assume(t2 != own)
	assume(t2 != t)
	uB2 := &ContainerUpdate{ContainerId: t2, Linux: &LinuxContainerUpdate{Resources: &LinuxResources{Pids: &api.LinuxPids{Limit: pids2}}}}
	err = r.apply(wrapUpdates(kind, []*ContainerUpdate{uB, uB2}), ps[1])
	vassert(err == nil, "ignored-failure-failed-the-request")
	last := oneItem(f)
	if len(itA) > 0 {
		assume(last[0].key != itA[0].key)
	}
	resC := buildResources(f, last)
	uC := &ContainerUpdate{ContainerId: t, Linux: &LinuxContainerUpdate{Resources: resC}}
	err = r.apply(wrapUpdates(kind, []*ContainerUpdate{uC}), ps[1+choose(2)])
	vassert(err == nil, "dropped-update-left-a-claim-behind")
	if err != nil {
		return
	}
	var got []*ContainerUpdate
	switch kind {
	case reqCreate:
		got = r.createContainerResponse().Update
	case reqUpdate:
		got = r.updateContainerResponse().Update
	default:
		got = r.stopContainerResponse().Update
	}
	var en, en2 *ContainerUpdate
	for _, u := range got {
		if u != nil && u.ContainerId == t { // (the untouched own container of an update request is a nil placeholder)
			vassert(en == nil, "one-entry-per-target")
			en = u
		}
		if u != nil && u.ContainerId == t2 {
			vassert(en2 == nil, "one-entry-per-target")
			en2 = u
		}
	}
	vassert(en2 != nil && en2.Linux != nil && en2.Linux.Resources != nil && en2.Linux.Resources.Pids != nil &&
		en2.Linux.Resources.Pids.Limit == pids2, "update-after-a-dropped-one-lost")
	vassert(en != nil && en.Linux != nil && en.Linux.Resources != nil, "entry-missing")
	if en == nil || en.Linux == nil || en.Linux.Resources == nil {
		return
	}
	res := en.Linux.Resources
	vassert(res.Pids != nil && res.Pids.Limit == pidsA, "value-of-the-dropped-update-applied")
	want := buildResources(f, last)
	switch f {
	case famHugepage:
		// A's page size and the last update's, nothing of the dropped one
		vassert(len(res.HugepageLimits) == 2, "field-of-the-last-update")
		found := false
		for _, l := range res.HugepageLimits {
			if l.PageSize == want.HugepageLimits[0].PageSize && l.Limit == want.HugepageLimits[0].Limit {
				found = true
			}
		}
		vassert(found, "field-of-the-last-update")
	case famUnified:
		vassert(len(res.Unified) == 2, "field-of-the-last-update")
		for k, v := range want.Unified {
			g, ok := res.Unified[k]
			vassert(ok && g == v, "field-of-the-last-update")
		}
	default:
		g, w := getField(res, f), getField(want, f)
		vassert(g.present == w.present, "field-of-the-last-update")
		if g.present && w.present {
			vassert(g.num == w.num && g.str == w.str, "field-of-the-last-update")
		}
	}
	cover("done")
}

// H_C01_claims_survive_a_dropped_update: plugin A sets field f (19 fields incl. a hugepage size and a unified
// key) and the pids limit of container t; plugin B's ignore-failure update conflicts on the pids limit and is
// dropped (rolled back); plugin C then sets A's f on t: that is still a conflict - rolling back B's update
// must not forget A's claims.
//verif:property C01
//verif:instances 19
//verif:expect-cover done
func H_C01_claims_survive_a_dropped_update() {
	f := dropFams[instance()]
	shape("fam=" + famNames[f])
	kind := choose(3)
	shape("req=" + reqNames[kind])
	r, own := symUpdateResult(kind, f, 0)
	ps := symPlugins(3)
	t := nondetString()
	assume(t != own)
	itA := oneItem(f)
	resA := buildResources(f, itA)
	resA.Pids = &api.LinuxPids{Limit: nondetInt64()}
	err := r.apply(wrapUpdates(kind, []*ContainerUpdate{{ContainerId: t, Linux: &LinuxContainerUpdate{Resources: resA}}}), ps[0])
	vassert(err == nil, "first-update-rejected")
	resB := &LinuxResources{Pids: &api.LinuxPids{Limit: nondetInt64()}}
	if f == famHugepage || f == famUnified {
		// B also names another key of the family before it fails on the pids limit
		itB := oneItem(f)
		assume(itB[0].key != itA[0].key)
		rb := buildResources(f, itB)
		resB.HugepageLimits, resB.Unified = rb.HugepageLimits, rb.Unified
	}
	err = r.apply(wrapUpdates(kind, []*ContainerUpdate{{ContainerId: t, Linux: &LinuxContainerUpdate{Resources: resB}, IgnoreFailure: true}}), ps[1])
	vassert(err == nil, "ignored-failure-failed-the-request")
	itC := oneItem(f)
	itC[0].key = itA[0].key
	err = r.apply(wrapUpdates(kind, []*ContainerUpdate{{ContainerId: t, Linux: &LinuxContainerUpdate{Resources: buildResources(f, itC)}}}), ps[2])
	vassert(err != nil, "undetected-update-collision-after-a-dropped-update")
	cover("done")
}
