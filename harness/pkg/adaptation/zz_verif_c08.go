package adaptation

// C08: a registering plugin learns of each container exactly once; sync blocks hold it.
// The real accept-loop closure, requestPluginSync/finishedPluginSync, BlockPluginSync/Unblock,
// (*plugin).synchronize and Adaptation.CreateContainer run under the bounded scheduler together with
// runtime goroutines that create containers inside sync blocks.

import (
	"context"
	stdnet "net"
)

type c08World struct {
	r      *Adaptation
	w      *envWorld
	store  []string // the runtime's own bookkeeping
	p      *plugin
	ep     *envPlugin
	snap   []string // ids in the Synchronize snapshot the plugin received
	synced bool
	done   chan struct{}
	fin    chan struct{}
	accepts int
	early   bool
	nPlugins  int  // connections the listener hands out (default 1)
	failFirst bool // the first connecting plugin fails its synchronization
	next      int
}

var c08 *c08World

type c08Listener struct{}

func (c08Listener) Accept() (stdnet.Conn, error) {
	c08.accepts++
	n := c08.nPlugins
	if n == 0 {
		n = 1
	}
	if c08.accepts > n {
		close(c08.done)
		return nil, errListenerClosed
	}
	return nil, nil
}
func (c08Listener) Close() error      { return nil }
func (c08Listener) Addr() stdnet.Addr { return nil }

var errListenerClosed = context.Canceled

// verifC08NewExternal / verifC08Start replace newExternalPlugin / plugin.start: the handshake is C17's subject.
func verifC08NewExternal(r *Adaptation, conn stdnet.Conn) (*plugin, error) {
	i := c08.next
	c08.next++
	ep := &envPlugin{w: c08.w, id: i}
	if c08.failFirst && i == 0 {
		ep.syncFn = func(req *SynchronizeRequest) (*SynchronizeResponse, error) {
			return nil, errListenerClosed // any error: this plugin fails to synchronize
		}
		rpcc, rpcs := envRPC()
		return &plugin{idx: "00", base: "bad", events: ValidEvents, r: r, impl: &pluginType{ttrpcImpl: ep}, mux: &envMux{}, rpcl: &envListener{},
			rpcc: rpcc, rpcs: rpcs, closeC: make(chan struct{}), regC: make(chan error, 1)}, nil
	}
	ep.syncFn = func(req *SynchronizeRequest) (*SynchronizeResponse, error) {
		vassert(!readLockHeld(&r.syncLock), "ghost-plugin-synchronized-while-a-sync-block-is-held")
		for _, c := range req.Containers {
			c08.snap = append(c08.snap, c.Id)
		}
		c08.synced = true
		return &SynchronizeResponse{}, nil
	}
	rpcc, rpcs := envRPC()
	p := &plugin{idx: "0" + itoaDigit(i), base: "plugin", events: ValidEvents, r: r, impl: &pluginType{ttrpcImpl: ep}, mux: &envMux{}, rpcl: &envListener{},
		rpcc: rpcc, rpcs: rpcs, closeC: make(chan struct{}), regC: make(chan error, 1)}
	c08.p, c08.ep = p, ep
	return p, nil
}

func verifC08Start(p *plugin, name, version string) error { return nil }

func c08Create(id string) {
	r := c08.r
	b := r.BlockPluginSync()
	n0 := len(r.plugins)
	c08.store = append(c08.store, id)
	_, err := r.CreateContainer(context.Background(), &CreateContainerRequest{Pod: &PodSandbox{}, Container: &Container{Id: id}})
	vassert(err == nil, "create-error")
	vassert(len(r.plugins) == n0, "ghost-plugin-activated-while-a-sync-block-is-held")
	if c08.early && id == "c-a" {
		// "Safe to call multiple times": an early explicit Unblock followed by a second one
		b.Unblock()
		b.Unblock()
	} else {
		b.Unblock()
	}
	c08.fin <- struct{}{}
}

// H_C08_register_vs_create: one registering plugin, nCreators runtime goroutines each creating one container
// inside a sync block (plus one container that exists before).
//verif:property C08
//verif:instances 3
//verif:preempt 2
//verif:maxgoroutines 8
//verif:cut (*github.com/containerd/nri/pkg/adaptation.Adaptation).newExternalPlugin => verifC08NewExternal
//verif:cut (*github.com/containerd/nri/pkg/adaptation.plugin).start => verifC08Start
//verif:expect-cover in-snapshot created-later
func H_C08_register_vs_create() {
	w := &envWorld{}
	r := &Adaptation{}
	w.r = r
	c08 = &c08World{r: r, w: w, done: make(chan struct{}), fin: make(chan struct{}, 2), store: []string{"c-old"}}
	r.syncFn = func(ctx context.Context, cb SyncCB) error {
		var ctrs []*Container
		for _, id := range c08.store {
			ctrs = append(ctrs, &Container{Id: id})
		}
		_, err := cb(ctx, nil, ctrs)
		return err
	}
	nCreators := 1 + instance()
	if instance() == 2 {
		// two creators, one of which releases its block twice
		nCreators = 2
		c08.early = true
	}
	ids := []string{"c-a", "c-b"}
	r.acceptPluginConnections(c08Listener{})
	for i := 0; i < nCreators; i++ {
		go c08Create(ids[i])
	}
	<-c08.done
	for i := 0; i < nCreators; i++ {
		<-c08.fin
	}
	// the registration completed (the loop reached the next Accept) and nothing deadlocked
	vassert(c08.synced, "plugin-never-synchronized")
	r.Lock()
	active := len(r.plugins) == 1 && r.plugins[0] == c08.p
	r.Unlock()
	vassert(active, "plugin-not-activated")
	all := append([]string{"c-old"}, ids[:nCreators]...)
	for _, id := range all {
		inSnap, created := 0, 0
		for _, s := range c08.snap {
			if s == id {
				inSnap++
			}
		}
		for _, c := range w.trace {
			if c.method == "CreateContainer" {
				if req, ok := c.arg.(*CreateContainerRequest); ok && req.Container.Id == id {
					created++
				}
			}
		}
		if inSnap == 1 {
			cover("in-snapshot")
		}
		if created == 1 {
			cover("created-later")
		}
		vassert(inSnap+created == 1, "container-seen-not-exactly-once")
	}
}

// H_C08_failed_sync_then_register: a plugin whose synchronization fails connects first, a well-behaved one
// second, while a runtime goroutine creates a container inside a sync block. The failed plugin holds nothing
// back: the block is obtained and released, the second plugin is synchronized and activated, and it learns of
// the container exactly once (snapshot or creation request); the failed plugin is not active.
//verif:property C08
//verif:preempt 1
//verif:maxgoroutines 8
//verif:cut (*github.com/containerd/nri/pkg/adaptation.Adaptation).newExternalPlugin => verifC08NewExternal
//verif:cut (*github.com/containerd/nri/pkg/adaptation.plugin).start => verifC08Start
//verif:expect-cover in-snapshot created-later
func H_C08_failed_sync_then_register() { failedSyncThenRegister() }

// H_C07_failed_sync_does_not_block_requests: the same scenario seen from C07: a plugin that fails while it is
// being synchronized is dropped without stalling the runtime - the creation request inside the sync block
// completes and the next plugin registers (a stall is reported as a deadlock).
//verif:property C07
//verif:preempt 1
//verif:maxgoroutines 8
//verif:cut (*github.com/containerd/nri/pkg/adaptation.Adaptation).newExternalPlugin => verifC08NewExternal
//verif:cut (*github.com/containerd/nri/pkg/adaptation.plugin).start => verifC08Start
//verif:expect-cover in-snapshot created-later
func H_C07_failed_sync_does_not_block_requests() { failedSyncThenRegister() }

func failedSyncThenRegister() {
	w := &envWorld{}
	r := &Adaptation{}
	w.r = r
	c08 = &c08World{r: r, w: w, done: make(chan struct{}), fin: make(chan struct{}, 2), store: []string{"c-old"}, nPlugins: 2, failFirst: true}
	r.syncFn = func(ctx context.Context, cb SyncCB) error {
		var ctrs []*Container
		for _, id := range c08.store {
			ctrs = append(ctrs, &Container{Id: id})
		}
		_, err := cb(ctx, nil, ctrs)
		return err
	}
	r.acceptPluginConnections(c08Listener{})
	go c08Create("c-a")
	<-c08.done
	<-c08.fin
	vassert(c08.synced, "plugin-never-synchronized")
	r.Lock()
	active := len(r.plugins) == 1 && r.plugins[0] == c08.p
	r.Unlock()
	vassert(active, "good-plugin-not-the-only-active-one")
	for _, id := range []string{"c-old", "c-a"} {
		inSnap, created := 0, 0
		for _, s := range c08.snap {
			if s == id {
				inSnap++
			}
		}
		for _, c := range w.trace {
			if c.method == "CreateContainer" && c.plugin == 1 {
				if req, ok := c.arg.(*CreateContainerRequest); ok && req.Container.Id == id {
					created++
				}
			}
		}
		if inSnap == 1 {
			cover("in-snapshot")
		}
		if created == 1 {
			cover("created-later")
		}
		vassert(inSnap+created == 1, "container-seen-not-exactly-once")
	}
}
