package adaptation

// C17: only well-formed, timely registrations are activated; the socket is private.

import (
	"time"
	"context"
	"errors"
	stdnet "net"

	"github.com/containerd/nri/pkg/api"
)

// refValidIndex: reference predicate from the statement: exactly two decimal digits.
func refValidIndex(idx string) bool {
	n := atoiStr(idx)
	return band(strLen(idx) == 2, band(n >= 0, n <= 99))
}

// H_C17_register: RegisterPlugin accepts exactly non-empty names with a two-digit index.
//verif:property C17
//verif:preempt 0
//verif:expect-cover accepted rejected
func H_C17_register() {
	r, _, _ := newEnvAdaptation([]string{""}, []EventMask{0})
	p := r.plugins[0]
	p.base, p.idx = "", ""
	name, idx := nondetString(), nondetString()
	valid := band(name != "", refValidIndex(idx))
	_, err := p.RegisterPlugin(context.Background(), &RegisterPluginRequest{PluginName: name, PluginIdx: idx})
	regErr := <-p.regC
	if err == nil {
		cover("accepted")
		vassert(valid, "malformed-registration-accepted")
		vassert(regErr == nil, "registration-result-mismatch")
		vassert(p.base == name && p.idx == idx, "identity-not-recorded")
	} else {
		cover("rejected")
		vassert(bnot(valid), "well-formed-registration-rejected")
		vassert(regErr != nil, "registration-result-mismatch")
		vassert(p.base == "" && p.idx == "", "identity-recorded-for-rejected-plugin")
	}
}

// peer behaviours of an external plugin during the handshake
const (
	peerGood = iota
	peerBadIdentity
	peerNeverRegisters
	peerCloses
	peerBadMask
	peerConfigureFails
	peerSyncFails
	numPeerKinds
)

var peerNames = [...]string{"good", "bad-identity", "never-registers", "closes", "bad-mask", "configure-fails", "sync-fails"}

type acceptWorld struct {
	r       *Adaptation
	w       *envWorld
	kinds   []int
	plugins []*plugin
	eps     []*envPlugin
	next    int
	accepts int
	done    chan struct{}
	idxs    []string // indices the connecting plugins register with (default 0<i>)
}

var c17World *acceptWorld

type acceptListener struct{ aw *acceptWorld }

func (l *acceptListener) Accept() (stdnet.Conn, error) {
	aw := l.aw
	aw.accepts++
	if aw.accepts > len(aw.kinds) {
		close(aw.done)
		return nil, errors.New("listener closed")
	}
	return nil, nil
}
func (l *acceptListener) Close() error      { return nil }
func (l *acceptListener) Addr() stdnet.Addr { return nil }

// verifNewExternal replaces (*Adaptation).newExternalPlugin: the connection set-up (mux, ttrpc) is decided
// elsewhere; here the plugin comes pre-connected to an environment peer with the chosen behaviour.
func verifNewExternal(r *Adaptation, conn stdnet.Conn) (*plugin, error) {
	aw := c17World
	i := aw.next
	aw.next++
	ep := &envPlugin{w: aw.w, id: i, cfgEvents: int32(ValidEvents)}
	rpcc, rpcs := envRPC()
	p := &plugin{r: r, impl: &pluginType{ttrpcImpl: ep}, mux: &envMux{}, rpcl: &envListener{}, rpcc: rpcc, rpcs: rpcs,
		closeC: make(chan struct{}), regC: make(chan error, 1)}
	aw.plugins = append(aw.plugins, p)
	aw.eps = append(aw.eps, ep)
	kind := aw.kinds[i]
	switch kind {
	case peerBadMask:
		m := nondetInt32()
		assume(m&^0x1fff != 0)
		ep.cfgEvents = m
	case peerConfigureFails:
		ep.fail = errHandler
	case peerSyncFails:
		ep.syncFn = func(*SynchronizeRequest) (*SynchronizeResponse, error) { return nil, errors.New("sync failed") }
	}
	go func() {
		switch kind {
		case peerNeverRegisters:
		case peerCloses:
			close(p.closeC)
			p.close()
		case peerBadIdentity:
			name, idx := nondetString(), nondetString()
			assume(bnot(band(name != "", refValidIndex(idx))))
			p.RegisterPlugin(context.Background(), &RegisterPluginRequest{PluginName: name, PluginIdx: idx})
		default:
			idx := "0" + itoaDigit(i)
			if i < len(aw.idxs) {
				idx = aw.idxs[i]
			}
			p.RegisterPlugin(context.Background(), &RegisterPluginRequest{PluginName: "plugin", PluginIdx: idx})
		}
	}()
	return p, nil
}

func itoaDigit(i int) string { return string(rune('0' + i)) }

const c17RegTimeout, c17ReqTimeout = 7000 * time.Millisecond, 1500 * time.Millisecond

func runAcceptLoop(kinds []int) *acceptWorld { return runAcceptLoopWith(kinds, nil, nil) }

// runAcceptLoopWith: as runAcceptLoop, with already active plugins at indices pre (ascending) and the
// connecting plugins registering with indices idxs.
func runAcceptLoopWith(kinds []int, pre []string, idxs []string) *acceptWorld {
	w := &envWorld{}
	r := &Adaptation{}
	w.r = r
	aw := &acceptWorld{r: r, w: w, kinds: kinds, done: make(chan struct{}), idxs: idxs}
	c17World = aw
	SetPluginRegistrationTimeout(c17RegTimeout)
	SetPluginRequestTimeout(c17ReqTimeout)
	for i, idx := range pre {
		ep := &envPlugin{w: w, id: 100 + i}
		rpcc, rpcs := envRPC()
		r.plugins = append(r.plugins, &plugin{idx: idx, base: "pre", events: ValidEvents, r: r, impl: &pluginType{ttrpcImpl: ep},
			mux: &envMux{}, rpcl: &envListener{}, rpcc: rpcc, rpcs: rpcs, closeC: make(chan struct{}), regC: make(chan error, 1)})
	}
	r.syncFn = func(ctx context.Context, cb SyncCB) error {
		_, err := cb(ctx, nil, nil)
		return err
	}
	r.acceptPluginConnections(&acceptListener{aw: aw})
	<-aw.done
	return aw
}

// H_C17_accept1: one connecting plugin with every handshake behaviour: it is activated only if it
// registered validly, answered configuration with a valid mask and synchronised; the accept loop always
// reaches the next Accept (a bad plugin cannot block later ones).
//verif:property C17
//verif:instances 7
//verif:preempt 0
//verif:timers
//verif:cut (*github.com/containerd/nri/pkg/adaptation.Adaptation).newExternalPlugin => verifNewExternal
//verif:expect-cover activated not-activated
func H_C17_accept1() {
	kind := instance()
	shape("peer=" + peerNames[kind])
	aw := runAcceptLoop([]int{kind})
	checkActivation(aw)
}

// H_C17_accept2: a bad plugin followed by a good one.
//verif:property C17
//verif:instances 6
//verif:preempt 0
//verif:timers
//verif:cut (*github.com/containerd/nri/pkg/adaptation.Adaptation).newExternalPlugin => verifNewExternal
//verif:expect-cover good-after-bad
func H_C17_accept2() {
	kind := 1 + instance()
	shape("peer=" + peerNames[kind])
	aw := runAcceptLoop([]int{kind, peerGood})
	checkActivation(aw)
	aw.r.Lock()
	for _, p := range aw.r.plugins {
		if p == aw.plugins[1] {
			cover("good-after-bad")
		}
	}
	aw.r.Unlock()
}

func checkActivation(aw *acceptWorld) {
	r := aw.r
	vassert(aw.accepts == len(aw.kinds)+1, "accept-loop-stuck")
	// the only timers of the handshake are the waits for registration: each is the registration timeout
	for i := 0; i < timerCount(); i++ {
		vassert(timerNs(i) == int64(c17RegTimeout), "ghost-registration-wait-not-bounded-by-the-registration-timeout")
	}
	r.Lock()
	active := append([]*plugin{}, r.plugins...)
	r.Unlock()
	for i, p := range aw.plugins {
		isActive := false
		for _, q := range active {
			if q == p {
				isActive = true
			}
		}
		if isActive {
			cover("activated")
			vassert(aw.kinds[i] == peerGood, "bad-plugin-activated")
			vassert(p.base != "" && api.CheckPluginIndex(p.idx) == nil, "active-plugin-without-valid-identity")
			vassert(p.events&^ValidEvents == 0 && p.events != 0, "active-plugin-with-invalid-mask")
		} else {
			cover("not-activated")
		}
	}
	// plugins that were not activated never receive events
	n0 := len(aw.w.trace)
	r.RunPodSandbox(context.Background(), &StateChangeEvent{Pod: &PodSandbox{}})
	for _, c := range aw.w.trace[n0:] {
		ok := false
		for _, q := range active {
			if q == aw.plugins[c.plugin] {
				ok = true
			}
		}
		vassert(ok, "event-sent-to-inactive-plugin")
	}
	// a plugin that failed the handshake never got Synchronize unless it reached that stage
	for _, c := range aw.w.trace[:n0] {
		if c.method == "Synchronize" {
			k := aw.kinds[c.plugin]
			vassert(k == peerGood || k == peerSyncFails, "bad-plugin-synchronized")
		}
	}
}

// H_C17_listener_off: with external connections disabled nothing is created or served.
//verif:property C17
//verif:preempt 0
//verif:expect-cover done
func H_C17_listener_off() {
	r := &Adaptation{dontListen: true, socketPath: nondetString()}
	err := r.startListener()
	vassert(err == nil, "start-listener-error")
	vassert(r.listener == nil, "listener-created-although-disabled")
	cover("done")
}

// H_C17_socket_dir: when NRI creates the socket directory it is created with mode 0700 on the directory
// of the socket path, before any listening socket exists (OS-call boundary; the kernel and umask are outside).
//verif:property C17
//verif:preempt 0
//verif:expect-cover done
func H_C17_socket_dir() {
	// filepath.Dir on an unbounded symbolic string is out of reach: a stated set of concrete paths
	paths := [...]string{"/var/run/nri/nri.sock", "/tmp/x.sock", "rel/dir/s", "s.sock", "/a//b/../c/n.sock"}
	dirs := [...]string{"/var/run/nri", "/tmp", "rel/dir", ".", "/a/c"}
	i := choose(len(paths))
	r := &Adaptation{socketPath: paths[i]}
	err := r.startListener()
	vassert(err != nil, "ghost-environment-listen-should-fail")
	vassert(envLogCount("os.MkdirAll") == 1, "ghost-socket-directory-not-created-once")
	vassert(envLogInt("os.MkdirAll", 0, 1) == 0700, "ghost-socket-directory-mode")
	vassert(envLogStr("os.MkdirAll", 0, 0) == dirs[i], "ghost-socket-directory-path")
	cover("done")
}
