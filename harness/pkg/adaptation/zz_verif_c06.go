package adaptation

// C06: subscribed plugins get each event once, in index order (sequential sub-claims 1-3).

import (
	"context"

	"github.com/containerd/nri/pkg/api"
)

// H_C06_mask_algebra: IsSet/Set/Clear agree with bit e-1 for every 32-bit mask and every event 1..13.
//verif:property C06
//verif:expect-cover done
func H_C06_mask_algebra() {
	m := EventMask(nondetInt32())
	e := api.Event(nondetInt32())
	assume(e >= 1)
	assume(e <= 13)
	bit := (int32(m) >> uint(e-1)) & 1
	vassert(m.IsSet(e) == (bit == 1), "isset-bit")
	m2 := m
	m2.Set(e)
	vassert(m2.IsSet(e), "set-then-isset")
	vassert(int32(m2)&^(1<<uint(e-1)) == int32(m)&^(1<<uint(e-1)), "set-touches-one-bit")
	m3 := m
	m3.Clear(e)
	vassert(!m3.IsSet(e), "clear-then-notset")
	vassert(int32(m3)&^(1<<uint(e-1)) == int32(m)&^(1<<uint(e-1)), "clear-touches-one-bit")
	vassert(int32(ValidEvents) == 0x1fff, "valid-events")
	cover("done")
}

// H_C06_configure_mask: configure() accepts exactly the masks within the 13 valid bits, 0 means everything.
//verif:property C06
//verif:preempt 0
//verif:expect-cover accepted rejected
func H_C06_configure_mask() {
	r, _, eps := newEnvAdaptation([]string{"00"}, []EventMask{0})
	ev := nondetInt32()
	eps[0].cfgEvents = ev
	p := r.plugins[0]
	err := p.configure(context.Background(), "runtime", "1.0", "")
	valid := ev&^0x1fff == 0
	if err == nil {
		cover("accepted")
		vassert(valid, "invalid-mask-accepted")
		want := ifInt(ev == 0, 0x1fff, int64(ev))
		vassert(int64(p.events) == want, "configured-mask")
	} else {
		cover("rejected")
		vassert(!valid, "valid-mask-rejected")
	}
}

var stateChangeWrappers = [...]api.Event{api.Event_RUN_POD_SANDBOX, api.Event_POST_UPDATE_POD_SANDBOX, api.Event_STOP_POD_SANDBOX,
	api.Event_REMOVE_POD_SANDBOX, api.Event_POST_CREATE_CONTAINER, api.Event_START_CONTAINER, api.Event_POST_START_CONTAINER,
	api.Event_POST_UPDATE_CONTAINER, api.Event_REMOVE_CONTAINER}

func callWrapper(r *Adaptation, k int, evt *StateChangeEvent) error {
	ctx := context.Background()
	switch k {
	case 0:
		return r.RunPodSandbox(ctx, evt)
	case 1:
		return r.PostUpdatePodSandbox(ctx, evt)
	case 2:
		return r.StopPodSandbox(ctx, evt)
	case 3:
		return r.RemovePodSandbox(ctx, evt)
	case 4:
		return r.PostCreateContainer(ctx, evt)
	case 5:
		return r.StartContainer(ctx, evt)
	case 6:
		return r.PostStartContainer(ctx, evt)
	case 7:
		return r.PostUpdateContainer(ctx, evt)
	}
	return r.RemoveContainer(ctx, evt)
}

// issue sends request kind k (0..8 state-change wrappers, 9 create, 10 update, 11 stop, 12 update pod, 13 raw
// StateChange with a symbolic event) and returns the event it stands for and the expected handler method.
func issue(r *Adaptation, k int) (api.Event, string, error) {
	ctx := context.Background()
	switch {
	case k < 9:
		return stateChangeWrappers[k], "StateChange", callWrapper(r, k, &StateChangeEvent{})
	case k == 9:
		_, err := r.CreateContainer(ctx, &CreateContainerRequest{Pod: &PodSandbox{}, Container: &Container{Id: "c0"}})
		return api.Event_CREATE_CONTAINER, "CreateContainer", err
	case k == 10:
		_, err := r.UpdateContainer(ctx, &UpdateContainerRequest{Pod: &PodSandbox{}, Container: &Container{Id: "c0"}})
		return api.Event_UPDATE_CONTAINER, "UpdateContainer", err
	case k == 11:
		_, err := r.StopContainer(ctx, &StopContainerRequest{Pod: &PodSandbox{}, Container: &Container{Id: "c0"}})
		return api.Event_STOP_CONTAINER, "StopContainer", err
	case k == 12:
		_, err := r.UpdatePodSandbox(ctx, &UpdatePodSandboxRequest{Pod: &PodSandbox{}})
		return api.Event_UPDATE_POD_SANDBOX, "UpdatePodSandbox", err
	}
	e := api.Event(nondetInt32())
	assume(e >= 1)
	assume(e <= 13)
	return e, "StateChange", r.StateChange(ctx, &StateChangeEvent{Event: e})
}

// H_C06_dispatch: three plugins with arbitrary valid masks; every request kind reaches exactly the
// subscribed plugins, each once, in slice (= index) order, with the Adaptation lock held.
//verif:property C06
//verif:instances 14
//verif:preempt 0
//verif:expect-cover dispatched
func H_C06_dispatch() {
	masks := []EventMask{symMask(), symMask(), symMask()}
	r, w, _ := newEnvAdaptation([]string{"00", "05", "10"}, masks)
	k := instance()
	shape("req=" + itoa(k))
	ev, method, err := issue(r, k)
	vassert(err == nil, "request-error")
	next := 0
	for _, c := range w.trace {
		vassert(c.plugin >= next, "order-or-duplicate")
		next = c.plugin + 1
		vassert(c.method == method, "wrong-handler")
		vassert(c.event == ev, "wrong-event")
		vassert(c.locked, "ghost-plugin-called-without-adaptation-lock")
	}
	for i := range masks {
		called := false
		for _, c := range w.trace {
			if c.plugin == i {
				called = true
			}
		}
		want := masks[i].IsSet(ev)
		if called {
			vassert(want, "unsubscribed-plugin-invoked")
		} else {
			vassert(!want, "subscribed-plugin-skipped")
		}
	}
	cover("dispatched")
}

func itoa(k int) string {
	return string(rune('a' + k))
}

// H_C06_index_order: for valid two-digit indices string order equals numeric order.
//verif:property C06
//verif:expect-cover done
func H_C06_index_order() {
	a, b := nondetString(), nondetString()
	assume(api.CheckPluginIndex(a) == nil)
	assume(api.CheckPluginIndex(b) == nil)
	na, nb := atoiStr(a), atoiStr(b)
	vassert((a < b) == (na < nb), "string-order-is-numeric-order")
	cover("done")
}

// H_C06_sort: appending plugins in any registration order leaves r.plugins sorted by index.
//verif:property C06
//verif:preempt 0
//verif:expect-cover done
func H_C06_sort() {
	idx := []string{nondetString(), nondetString(), nondetString()}
	for _, s := range idx {
		assume(api.CheckPluginIndex(s) == nil)
	}
	r, _, _ := newEnvAdaptation(idx, []EventMask{ValidEvents, ValidEvents, ValidEvents})
	r.sortPlugins()
	vassert(len(r.plugins) == 3, "plugin-lost")
	for i := 0; i+1 < len(r.plugins); i++ {
		vassert(r.plugins[i].idx <= r.plugins[i+1].idx, "not-sorted")
	}
	cover("done")
}

// H_C06_sort_concrete: three distinct concrete indices from a set that contains leading zeros and the
// digits 8 and 9 (so that numeric parsing shortcuts show), in every registration order.
//verif:property C06
//verif:preempt 0
//verif:expect-cover done
func H_C06_sort_concrete() {
	cands := [...]string{"00", "05", "07", "08", "09", "10", "77"}
	a, b, c := choose(len(cands)), choose(len(cands)), choose(len(cands))
	if a == b || b == c || a == c {
		assume(false)
	}
	r, _, _ := newEnvAdaptation([]string{cands[a], cands[b], cands[c]}, []EventMask{ValidEvents, ValidEvents, ValidEvents})
	r.sortPlugins()
	vassert(len(r.plugins) == 3, "plugin-lost")
	for i := 0; i+1 < len(r.plugins); i++ {
		vassert(r.plugins[i].idx < r.plugins[i+1].idx, "not-sorted-by-index")
	}
	cover("done")
}

var c06Indices = [...]string{"00", "09", "10", "20", "21", "39", "40", "55", "60", "61", "99"}

// H_C06_accept_order: plugins that connect at run time go through the real accept loop (handshake,
// activation under the lock) while plugins 20, 40 and 60 are already active; two newcomers register, one
// after the other, with indices from an 11-element set that contains values below, between, equal to and
// above the active ones. Afterwards the active list is ascending by index and an event reaches the plugins
// in exactly that order. (The registration timer never fires in this harness; timeouts are C17's subject.)
//verif:property C06
//verif:instances 11
//verif:preempt 0
//verif:cut (*github.com/containerd/nri/pkg/adaptation.Adaptation).newExternalPlugin => verifNewExternal
//verif:expect-cover ordered
func H_C06_accept_order() {
	a, b := c06Indices[instance()], c06Indices[choose(len(c06Indices))]
	aw := runAcceptLoopWith([]int{peerGood, peerGood}, []string{"20", "40", "60"}, []string{a, b})
	r := aw.r
	r.Lock()
	active := append([]*plugin{}, r.plugins...)
	r.Unlock()
	vassert(len(active) == 5, "connected-plugin-not-active")
	for i := 0; i+1 < len(active); i++ {
		vassert(active[i].idx <= active[i+1].idx, "active-plugins-not-in-index-order")
	}
	n0 := len(aw.w.trace)
	r.RunPodSandbox(context.Background(), &StateChangeEvent{Pod: &PodSandbox{}})
	calls := aw.w.trace[n0:]
	vassert(len(calls) == len(active), "event-not-delivered-to-every-plugin-once")
	if len(calls) == len(active) {
		for i, c := range calls {
			ep := active[i].impl.ttrpcImpl.(*envPlugin)
			vassert(c.plugin == ep.id, "invocation-order-differs-from-index-order")
		}
	}
	cover("ordered")
}

// H_C06_order_after_drop: four subscribed plugins (indices 10, 20, 30, 40); the plugin at an arbitrary
// position fails fatally (connection closed) during the first request of kind k and is dropped; the second
// request reaches the three remaining plugins, each once, still in index order.
//verif:property C06
//verif:instances 14
//verif:preempt 0
//verif:expect-cover ordered
func H_C06_order_after_drop() {
	r, w, eps := newEnvAdaptation([]string{"10", "20", "30", "40"}, []EventMask{ValidEvents, ValidEvents, ValidEvents, ValidEvents})
	pos := choose(4)
	shape("pos=" + itoa(pos))
	eps[pos].fail = errClosed
	k := instance()
	_, _, err := issue(r, k)
	vassert(err == nil, "fatal-plugin-error-failed-the-request")
	eps[pos].fail = errNone
	n0 := len(w.trace)
	k2 := choose(2) * 9 // a state change or a container creation
	_, _, err = issue(r, k2)
	vassert(err == nil, "request-error")
	next := 0
	seen := 0
	for _, c := range w.trace[n0:] {
		vassert(c.plugin != pos, "dropped-plugin-invoked")
		vassert(c.plugin >= next, "invocation-order-differs-from-index-order")
		next = c.plugin + 1
		seen++
	}
	vassert(seen == 3, "remaining-plugins-not-invoked-exactly-once")
	cover("ordered")
}
