package adaptation

// C03 / C04 differential harnesses: both sides are real code.
//   left  = Generator.Adjust(reply.adjust)            applied to spec0 = specOf(original)
//   right = Generator.Adjust(a_n) ... Adjust(a_1)     applied to spec0
//   view  = the request container the next plugin would be shown
// C03: left == right.  C04: view == left after every plugin ("agrees with what the runtime would
// obtain by applying the result combined so far").

import (
	rspec "github.com/opencontainers/runtime-spec/specs-go"
	rgen "github.com/opencontainers/runtime-tools/generate"

	"github.com/containerd/nri/pkg/api"
	"github.com/containerd/nri/pkg/runtime-tools/generate"
)

// specOf converts the adjustable part of a container into an OCI spec (field by field).
func specOf(c *Container) *rspec.Spec {
	s := &rspec.Spec{Process: &rspec.Process{}, Linux: &rspec.Linux{}}
	if len(c.Annotations) > 0 {
		s.Annotations = map[string]string{}
		for k, v := range c.Annotations {
			s.Annotations[k] = v
		}
	}
	s.Process.Env = append(s.Process.Env, c.Env...)
	s.Process.Args = append(s.Process.Args, c.Args...)
	for _, m := range c.Mounts {
		s.Mounts = append(s.Mounts, m.ToOCI(nil))
	}
	for _, l := range c.Rlimits {
		s.Process.Rlimits = append(s.Process.Rlimits, rspec.POSIXRlimit{Type: l.Type, Hard: l.Hard, Soft: l.Soft})
	}
	if c.Hooks != nil {
		s.Hooks = &rspec.Hooks{}
		for _, h := range c.Hooks.Prestart {
			s.Hooks.Prestart = append(s.Hooks.Prestart, h.ToOCI())
		}
		for _, h := range c.Hooks.Poststop {
			s.Hooks.Poststop = append(s.Hooks.Poststop, h.ToOCI())
		}
	}
	if l := c.Linux; l != nil {
		for _, d := range l.Devices {
			s.Linux.Devices = append(s.Linux.Devices, d.ToOCI())
		}
		s.Linux.Resources = l.Resources.ToOCI()
		s.Linux.CgroupsPath = l.CgroupsPath
		if l.OomScoreAdj != nil {
			v := int(l.OomScoreAdj.Value)
			s.Process.OOMScoreAdj = &v
		}
	}
	return s
}

type cdiRec struct{ names []string }

func newGenFor(spec *rspec.Spec, rec *cdiRec) *generate.Generator {
	return generate.SpecGenerator(&rgen.Generator{Config: spec}, generate.WithCDIDeviceInjector(func(_ *rspec.Spec, names []string) error {
		rec.names = append(rec.names, names...)
		return nil
	}))
}

func ptrEqI64(a, b *int64) bool {
	if a == nil || b == nil {
		return a == nil && b == nil
	}
	return *a == *b
}
func ptrEqU64(a, b *uint64) bool {
	if a == nil || b == nil {
		return a == nil && b == nil
	}
	return *a == *b
}

// cmpSpecs compares the parts of two specs that family f can influence; probe is an arbitrary key.
func cmpSpecs(f int, l, r *rspec.Spec, lc, rc *cdiRec, probe string, tag string) {
	switch f {
	case famAnnotation:
		lv, lok := l.Annotations[probe]
		rv, rok := r.Annotations[probe]
		vassert(lok == rok, tag+"-annotation-presence")
		if lok && rok {
			vassert(lv == rv, tag+"-annotation-value")
		}
	case famEnv:
		// keyed comparison: last entry for the probe key
		lh, ld, lv := envLookup(l.Process.Env, probe)
		rh, rd, rv := envLookup(r.Process.Env, probe)
		vassert(lh == rh, tag+"-env-presence")
		_, _ = ld, rd // duplicate detection on prefix tests is beyond the solver's reach within the quick budget
		vassert(bimp(band(lh, rh), lv == rv), tag+"-env-value")
	case famMount:
		lh, ld, lv := mountLookup(l.Mounts, probe)
		rh, rd, rv := mountLookup(r.Mounts, probe)
		vassert(lh == rh, tag+"-mount-presence")
		vassert(ld == rd, tag+"-mount-duplicate")
		vassert(bimp(band(lh, rh), lv == rv), tag+"-mount-source")
	case famDevice:
		lh, ld, lv := devLookup(l.Linux.Devices, probe)
		rh, rd, rv := devLookup(r.Linux.Devices, probe)
		vassert(lh == rh, tag+"-device-presence")
		vassert(ld == rd, tag+"-device-duplicate")
		vassert(bimp(band(lh, rh), lv == rv), tag+"-device-type")
	case famCDI:
		vassert(len(lc.names) == len(rc.names), tag+"-cdi-count")
		if len(lc.names) == len(rc.names) {
			for i := range lc.names {
				vassert(lc.names[i] == rc.names[i], tag+"-cdi-name")
			}
		}
	case famRlimit:
		vassert(len(l.Process.Rlimits) == len(r.Process.Rlimits), tag+"-rlimit-count")
		if len(l.Process.Rlimits) == len(r.Process.Rlimits) {
			for i := range l.Process.Rlimits {
				vassert(l.Process.Rlimits[i] == r.Process.Rlimits[i], tag+"-rlimit")
			}
		}
	case famArgs:
		vassert(len(l.Process.Args) == len(r.Process.Args), tag+"-args-len")
		if len(l.Process.Args) == len(r.Process.Args) {
			for i := range l.Process.Args {
				vassert(l.Process.Args[i] == r.Process.Args[i], tag+"-args")
			}
		}
	case famCgroupsPath:
		vassert(l.Linux.CgroupsPath == r.Linux.CgroupsPath, tag+"-cgroupspath")
	case famOom:
		a, b := l.Process.OOMScoreAdj, r.Process.OOMScoreAdj
		if a == nil || b == nil {
			vassert(a == nil && b == nil, tag+"-oom-presence")
		} else {
			vassert(*a == *b, tag+"-oom")
		}
	default:
		// nil and empty sections both mean "nothing set"
		lr, rr := l.Linux.Resources, r.Linux.Resources
		if lr == nil {
			lr = &rspec.LinuxResources{}
		}
		if rr == nil {
			rr = &rspec.LinuxResources{}
		}
		switch f {
		case famHugepage:
			lh, lv := hpLookup(lr.HugepageLimits, probe)
			rh, rv := hpLookup(rr.HugepageLimits, probe)
			vassert(lh == rh, tag+"-hugepage-presence")
			vassert(bimp(band(lh, rh), lv == rv), tag+"-hugepage-limit")
		case famUnified:
			lv, lok := lr.Unified[probe]
			rv, rok := rr.Unified[probe]
			vassert(lok == rok, tag+"-unified-presence")
			if lok && rok {
				vassert(lv == rv, tag+"-unified-value")
			}
		case famPids:
			if lr.Pids == nil || rr.Pids == nil {
				vassert(lr.Pids == nil && rr.Pids == nil, tag+"-pids-presence")
			} else {
				vassert(lr.Pids.Limit == rr.Pids.Limit, tag+"-pids")
			}
		case famBlockio, famRdt:
			// class resolution is runtime-supplied (outside the claim)
		default:
			lm, rm := lr.Memory, rr.Memory
			if lm == nil {
				lm = &rspec.LinuxMemory{}
			}
			if rm == nil {
				rm = &rspec.LinuxMemory{}
			}
			// the generator couples swap to a non-zero limit on purpose: swap is not compared
			vassert(ptrEqI64(lm.Limit, rm.Limit), tag+"-mem-limit")
			vassert(ptrEqI64(lm.Reservation, rm.Reservation), tag+"-mem-reservation")
			lcp, rcp := lr.CPU, rr.CPU
			if lcp == nil {
				lcp = &rspec.LinuxCPU{}
			}
			if rcp == nil {
				rcp = &rspec.LinuxCPU{}
			}
			{
				vassert(ptrEqU64(lcp.Shares, rcp.Shares), tag+"-cpu-shares")
				vassert(ptrEqI64(lcp.Quota, rcp.Quota), tag+"-cpu-quota")
				vassert(ptrEqU64(lcp.Period, rcp.Period), tag+"-cpu-period")
				vassert(ptrEqI64(lcp.RealtimeRuntime, rcp.RealtimeRuntime), tag+"-cpu-rtruntime")
				vassert(ptrEqU64(lcp.RealtimePeriod, rcp.RealtimePeriod), tag+"-cpu-rtperiod")
				vassert(lcp.Cpus == rcp.Cpus, tag+"-cpu-cpus")
				vassert(lcp.Mems == rcp.Mems, tag+"-cpu-mems")
			}
		}
	}
}

// envLookup: is there an entry "probe=..." and what is the last such entry.
func envLookup(env []string, probe string) (bool, bool, string) {
	has, dup, val := false, false, ""
	for _, e := range env {
		hit := hasPrefixStr(e, probe+"=")
		dup = bor(dup, band(has, hit))
		has = bor(has, hit)
		val = ifStr(hit, e, val)
	}
	return has, dup, val
}

func mountLookup(ms []rspec.Mount, probe string) (bool, bool, string) {
	has, dup, val := false, false, ""
	for _, e := range ms {
		hit := e.Destination == probe
		dup = bor(dup, band(has, hit))
		has = bor(has, hit)
		val = ifStr(hit, e.Source, val)
	}
	return has, dup, val
}

func devLookup(ds []rspec.LinuxDevice, probe string) (bool, bool, string) {
	has, dup, val := false, false, ""
	for _, e := range ds {
		hit := e.Path == probe
		dup = bor(dup, band(has, hit))
		has = bor(has, hit)
		val = ifStr(hit, e.Type, val)
	}
	return has, dup, val
}

func hpLookup(hs []rspec.LinuxHugepageLimit, probe string) (bool, int64) {
	has := false
	var val int64
	for _, h := range hs {
		hit := h.Pagesize == probe
		has = bor(has, hit)
		val = ifInt(hit, int64(h.Limit), val)
	}
	return has, val
}

// wfOrder: inside one response a removal marker for key k precedes a set of k (A-WF, documented usage);
// and env keys are well formed (non-empty, no '=').
func wfItems(f int, items []sItem) {
	assume(wellFormed(f, items))
	if famRemovable(f) {
		// item names are non-empty (OCI: annotation keys must not be empty; same for paths and variables);
		// with an empty name the marker "-" of the empty key and a key named "-" would be the same string
		for _, it := range items {
			assume(trimDash(it.key) != "")
			assume(bnot(hasDash(trimDash(it.key))))
		}
	}
	if f == famEnv {
		for _, it := range items {
			assume(trimDash(it.key) != "")
			assume(bnot(containsEq(it.key)))
		}
	}
	if f == famMount {
		// generator-side mount handling (sorting) needs clean absolute paths: stated lattice
		for i := range items {
			_ = i
		}
	}
}

// rhDiffRun: mode 3 = C03, mode 4 = C04.
func rhDiffRun(f int, maxItems []int, mode int) {
	shape("fam=" + famNames[f])
	req := symOriginal(f)
	if f == famEnv {
		for _, e := range req.Container.Env {
			assume(containsEq(e))
			assume(bnot(hasPrefixStr(e, "=")))
		}
	}
	assumeNamedOriginal(f, req.Container)
	spec0L, spec0R := specOf(req.Container), specOf(req.Container)
	r := collectCreateContainerResult(req)
	rcR := &cdiRec{}
	gR := newGenFor(spec0R, rcR)
	ps := symPlugins(len(maxItems))
	probes := []string{nondetString()}
	if rhProbeKeys != nil {
		probes = rhProbeKeys // concrete key set: compare at every key instead of an arbitrary one
	}
	if mode == 4 {
		// the first plugin is shown exactly what the runtime submitted
		for _, probe := range probes {
			cmpSpecs(f, specOf(req.Container), spec0L, &cdiRec{}, &cdiRec{}, probe, "first-view")
		}
	}
	for j := range maxItems {
		var cur []sItem
		if rhItemsHook != nil {
			cur = rhItemsHook(j)
		} else {
			cur = symItems(f, maxItems[j])
		}
		wfItems(f, cur)
		if f == famMemLimit {
			for _, it := range cur {
				assume(it.num != 0) // a requested limit of 0 is treated as unset by the generator (carve-out)
			}
		}
		a, aCopy := buildAdjust(f, cur), buildAdjust(f, cur)
		if f == famArgs && len(aCopy.Args) > 0 && aCopy.Args[0] == "" {
			// the leading "" is the plugin->NRI removal marker, not part of the command line
			aCopy.Args = aCopy.Args[1:]
		}
		err := r.apply(&CreateContainerResponse{Adjust: a}, ps[j])
		assume(err == nil) // conflict-free combinations only
		errR := gR.Adjust(aCopy)
		vassert(errR == nil, "sequential-adjust-error")
		if mode == 4 {
			// what the next plugin is shown vs what the runtime would obtain from the reply so far
			specV := specOf(req.Container)
			specL := specOf2(spec0L)
			rcL := &cdiRec{}
			gL := newGenFor(specL, rcL)
			errL := gL.Adjust(copyAdjust(f, r.reply.adjust))
			vassert(errL == nil, "combined-adjust-error")
			for _, probe := range probes {
				cmpSpecs(f, specV, gL.Config, rcL, rcL, probe, "view")
			}
		}
	}
	if mode == 3 {
		rcL := &cdiRec{}
		gL := newGenFor(spec0L, rcL)
		errL := gL.Adjust(r.createContainerResponse().Adjust)
		vassert(errL == nil, "combined-adjust-error")
		for _, probe := range probes {
			cmpSpecs(f, gL.Config, gR.Config, rcL, rcR, probe, "combined")
		}
	}
	cover("compared")
}

// specOf2 copies the parts of a spec that specOf fills in (so spec0 can be reused per step).
func specOf2(s *rspec.Spec) *rspec.Spec {
	c := &rspec.Spec{Process: &rspec.Process{}, Linux: &rspec.Linux{}}
	if s.Annotations != nil {
		c.Annotations = map[string]string{}
		for k, v := range s.Annotations {
			c.Annotations[k] = v
		}
	}
	c.Process.Env = append(c.Process.Env, s.Process.Env...)
	c.Process.Args = append(c.Process.Args, s.Process.Args...)
	c.Process.Rlimits = append(c.Process.Rlimits, s.Process.Rlimits...)
	c.Process.OOMScoreAdj = s.Process.OOMScoreAdj
	c.Mounts = append(c.Mounts, s.Mounts...)
	c.Linux.Devices = append(c.Linux.Devices, s.Linux.Devices...)
	c.Linux.CgroupsPath = s.Linux.CgroupsPath
	if s.Linux.Resources != nil {
		c.Linux.Resources = api.FromOCILinuxResources(s.Linux.Resources, nil).ToOCI()
	}
	return c
}

// copyAdjust: the generator must not see later mutations of the collected reply (and vice versa).
func copyAdjust(f int, a *ContainerAdjustment) *ContainerAdjustment {
	c := &ContainerAdjustment{}
	if a.Annotations != nil {
		c.Annotations = map[string]string{}
		for k, v := range a.Annotations {
			c.Annotations[k] = v
		}
	}
	c.Mounts = append(c.Mounts, a.Mounts...)
	c.Env = append(c.Env, a.Env...)
	c.Args = append(c.Args, a.Args...)
	c.Rlimits = append(c.Rlimits, a.Rlimits...)
	c.CDIDevices = append(c.CDIDevices, a.CDIDevices...)
	c.Hooks = a.Hooks
	if a.Linux != nil {
		c.Linux = &LinuxContainerAdjustment{CgroupsPath: a.Linux.CgroupsPath, OomScoreAdj: a.Linux.OomScoreAdj, Resources: a.Linux.Resources.Copy()}
		c.Linux.Devices = append(c.Linux.Devices, a.Linux.Devices...)
	}
	return c
}

// instance -> family: all families the generator applies (block-I/O and RDT classes excluded)
var diffFams = [...]int{famAnnotation, famEnv, famMount, famDevice, famCDI, famRlimit, famHugepage, famUnified, famArgs,
	famCgroupsPath, famOom, famMemLimit, famCpuShares, famCpuQuota, famCpuPeriod, famCpuRtRuntime, famCpuRtPeriod,
	famCpuCpus, famCpuMems, famPids}

// H_C03_diff2q: two plugins, one item each, every family
//verif:property C03
//verif:instances 20
//verif:tier quick
//verif:cut (*github.com/containerd/nri/pkg/runtime-tools/generate.Generator).sortMounts => verifNoSort
//verif:replay-with-cuts
//verif:expect-cover compared
func H_C03_diff2q() { rhDiffRun(diffFams[instance()], []int{1, 1}, 3) }

// H_C03_diff2bq: two plugins (<=2 and <=1 items), list families (mounts, devices, args)
//verif:property C03
//verif:instances 20
//verif:tier quick
//verif:quick-instances 2 3 8
//verif:cut (*github.com/containerd/nri/pkg/runtime-tools/generate.Generator).sortMounts => verifNoSort
//verif:replay-with-cuts
//verif:expect-cover compared
func H_C03_diff2bq() { rhDiffRun(diffFams[instance()], []int{2, 1}, 3) }

// H_C03_diff2: two plugins (<=1 and <=2 items)
//verif:property C03
//verif:thorough-instances 2 3 4 5 6 7 8 9 10 11 12 13 14 15 16 17 18 19
//verif:instances 20
//verif:tier thorough
//verif:cut (*github.com/containerd/nri/pkg/runtime-tools/generate.Generator).sortMounts => verifNoSort
//verif:replay-with-cuts
//verif:expect-cover compared
func H_C03_diff2() { rhDiffRun(diffFams[instance()], []int{1, 2}, 3) }

// H_C03_diff2b: two plugins (<=2 and <=1 items)
//verif:property C03
//verif:thorough-instances 2 3 4 5 6 7 8 9 10 11 12 13 14 15 16 17 18 19
//verif:instances 20
//verif:tier thorough
//verif:cut (*github.com/containerd/nri/pkg/runtime-tools/generate.Generator).sortMounts => verifNoSort
//verif:replay-with-cuts
//verif:expect-cover compared
func H_C03_diff2b() { rhDiffRun(diffFams[instance()], []int{2, 1}, 3) }

// H_C03_diff3: three plugins, one item each
//verif:property C03
//verif:thorough-instances 2 3 4 5 6 7 8 9 10 11 12 13 14 15 16 17 18 19
//verif:instances 20
//verif:tier thorough
//verif:cut (*github.com/containerd/nri/pkg/runtime-tools/generate.Generator).sortMounts => verifNoSort
//verif:replay-with-cuts
//verif:expect-cover compared
func H_C03_diff3() { rhDiffRun(diffFams[instance()], []int{1, 1, 1}, 3) }

// H_C04_view2q: after each of two plugins (one item each) the next plugin's view equals the runtime's
//verif:property C04
//verif:instances 20
//verif:tier quick
//verif:cut (*github.com/containerd/nri/pkg/runtime-tools/generate.Generator).sortMounts => verifNoSort
//verif:replay-with-cuts
//verif:expect-cover compared
func H_C04_view2q() { rhDiffRun(diffFams[instance()], []int{1, 1}, 4) }

// H_C04_view2bq: two plugins (<=2 and <=1 items), mounts, devices, args
//verif:property C04
//verif:instances 20
//verif:tier quick
//verif:quick-instances 2 3 8
//verif:cut (*github.com/containerd/nri/pkg/runtime-tools/generate.Generator).sortMounts => verifNoSort
//verif:replay-with-cuts
//verif:expect-cover compared
func H_C04_view2bq() { rhDiffRun(diffFams[instance()], []int{2, 1}, 4) }

// H_C04_view2: two plugins (<=2 and <=1 items), all families
//verif:property C04
//verif:thorough-instances 2 3 4 5 6 8 9 10 11 12 13 14 15 16 17 18 19
//verif:instances 20
//verif:tier thorough
//verif:cut (*github.com/containerd/nri/pkg/runtime-tools/generate.Generator).sortMounts => verifNoSort
//verif:replay-with-cuts
//verif:expect-cover compared
func H_C04_view2() { rhDiffRun(diffFams[instance()], []int{2, 1}, 4) }

// H_C04_view3: three plugins, one item each
//verif:property C04
//verif:thorough-instances 2 3 4 5 6 8 9 10 11 12 13 14 15 16 17 18 19
//verif:instances 20
//verif:tier thorough
//verif:cut (*github.com/containerd/nri/pkg/runtime-tools/generate.Generator).sortMounts => verifNoSort
//verif:replay-with-cuts
//verif:expect-cover compared
func H_C04_view3() { rhDiffRun(diffFams[instance()], []int{1, 1, 1}, 4) }

// H_C03_env22: environment, two plugins with <=2 items each (e.g. two variables set by the first plugin,
// both removed by the second).
//verif:property C03
//verif:tier thorough
//verif:cut (*github.com/containerd/nri/pkg/runtime-tools/generate.Generator).sortMounts => verifNoSort
//verif:replay-with-cuts
//verif:expect-cover compared
func H_C03_env22() { rhDiffRun(famEnv, []int{2, 2}, 3) }

// H_C03_env22q: as H_C03_env22 with an original container that has no environment.
//verif:property C03
//verif:tier quick
//verif:cut (*github.com/containerd/nri/pkg/runtime-tools/generate.Generator).sortMounts => verifNoSort
//verif:replay-with-cuts
//verif:expect-cover compared
func H_C03_env22q() {
	rhNoOriginal = true
	rhDiffRun(famEnv, []int{2, 2}, 3)
}

// verifNoSort replaces Generator.sortMounts in the differential harnesses: the comparison is keyed by
// destination, the ordering of mounts is decided under C13 (natively the real function runs).
func verifNoSort(g *generate.Generator) {}

// assumeNamedOriginal: items of the original container have non-empty names without a leading '-'.
func assumeNamedOriginal(f int, c *Container) {
	switch f {
	case famAnnotation:
		for k := range c.Annotations {
			assume(k != "")
			assume(bnot(hasDash(k)))
		}
	case famMount:
		for _, m := range c.Mounts {
			assume(m.Destination != "")
			assume(bnot(hasDash(m.Destination)))
		}
	case famDevice:
		if c.Linux != nil {
			for _, d := range c.Linux.Devices {
				assume(d.Path != "")
				assume(bnot(hasDash(d.Path)))
			}
		}
	case famEnv:
		for _, e := range c.Env {
			assume(bnot(hasDash(e)))
		}
	}
}

// ---- chains of sets and removals over two concrete keys ----

var chainFams = [...]int{famAnnotation, famEnv, famMount, famDevice}
var chainKeys = [...][2]string{{"ka", "kb"}, {"KA", "KB"}, {"/a", "/b"}, {"/dev/a", "/dev/b"}}

// chainItems: what one plugin does, out of 7 patterns over the keys a and b of family index fi:
// nothing | set a | remove a | remove a and set a | set b | remove b | remove a and set b. Values are
// distinct constants.
func chainItems(fi int) []sItem {
	a, b := chainKeys[fi][0], chainKeys[fi][1]
	set := func(k string) sItem {
		chainCtr++
		return sItem{key: k, val: "value" + itoa(chainCtr)} // distinct concrete values: a stale or foreign value shows
	}
	rem := func(k string) sItem { return sItem{key: "-" + k} }
	n := 7
	if chainOneKey {
		n = 4
	}
	switch choose(n) {
	case 1:
		return []sItem{set(a)}
	case 2:
		return []sItem{rem(a)}
	case 3:
		return []sItem{rem(a), set(a)}
	case 4:
		return []sItem{set(b)}
	case 5:
		return []sItem{rem(b)}
	case 6:
		return []sItem{rem(a), set(b)}
	}
	return nil
}

var chainCtr int
var chainOneKey bool // only the patterns over key a
var rhProbeKeys []string

func rhChainRun(fi int, plugins int, mode int) {
	rhItemsHook = func(int) []sItem { return chainItems(fi) }
	rhProbeKeys = chainKeys[fi][:]
	rhConcreteNames = true
	rhOrigHook = func() []sItem {
		k := 0
		if !chainOneKey {
			k = choose(2)
		}
		it := sItem{key: chainKeys[fi][k], val: "original"}
		if chainFams[fi] == famEnv {
			it.key = it.key + "=" + it.val
		}
		return []sItem{it}
	}
	counts := make([]int, plugins)
	rhDiffRun(chainFams[fi], counts, mode)
}

// H_C03_chain3q: three plugins, each doing one of four things to one fixed key (nothing / set / remove /
// remove+set) of annotations, env, mounts or devices, original container with or without that key: all
// conflict-free chains such as remove - set - remove or remove+set followed by a lone removal.
//verif:property C03
//verif:instances 4
//verif:cut (*github.com/containerd/nri/pkg/runtime-tools/generate.Generator).sortMounts => verifNoSort
//verif:replay-with-cuts
//verif:expect-cover compared
func H_C03_chain3q() {
	chainOneKey = true
	rhChainRun(instance(), 3, 3)
}

// H_C03_chain2q: two plugins, seven patterns over two fixed keys (also: set b, remove b, remove a and set b).
//verif:property C03
//verif:instances 4
//verif:cut (*github.com/containerd/nri/pkg/runtime-tools/generate.Generator).sortMounts => verifNoSort
//verif:replay-with-cuts
//verif:expect-cover compared
func H_C03_chain2q() { rhChainRun(instance(), 2, 3) }

// H_C03_chain3: three plugins, seven patterns over two keys.
//verif:property C03
//verif:thorough-instances 1 2 3
//verif:instances 4
//verif:tier thorough
//verif:cut (*github.com/containerd/nri/pkg/runtime-tools/generate.Generator).sortMounts => verifNoSort
//verif:replay-with-cuts
//verif:expect-cover compared
func H_C03_chain3() { rhChainRun(instance(), 3, 3) }

// H_C04_chain3q / chain2q / chain3: the same chains for what each later plugin is shown.
//verif:property C04
//verif:instances 4
//verif:cut (*github.com/containerd/nri/pkg/runtime-tools/generate.Generator).sortMounts => verifNoSort
//verif:replay-with-cuts
//verif:expect-cover compared
func H_C04_chain3q() {
	chainOneKey = true
	n := 3
	if instance() == 0 {
		// annotations: every step re-applies the combined adjustment through three map loops of the
		// generator, whose iteration orders are all explored: two plugins only (stated bound)
		n = 2
	}
	rhChainRun(instance(), n, 4)
}

// H_C04_chain2q: see H_C03_chain2q (env, mounts, devices; for annotations the per-step re-application makes
// the map-order exploration exceed any budget: 1.7 million paths in 30 minutes without finishing).
//verif:property C04
//verif:instances 4
//verif:quick-instances 1 2 3
//verif:thorough-instances 1 2 3
//verif:cut (*github.com/containerd/nri/pkg/runtime-tools/generate.Generator).sortMounts => verifNoSort
//verif:replay-with-cuts
//verif:expect-cover compared
func H_C04_chain2q() { rhChainRun(instance(), 2, 4) }

// H_C04_chain3: see H_C03_chain3.
//verif:property C04
//verif:thorough-instances 1 2 3
//verif:instances 4
//verif:tier thorough
//verif:cut (*github.com/containerd/nri/pkg/runtime-tools/generate.Generator).sortMounts => verifNoSort
//verif:replay-with-cuts
//verif:expect-cover compared
func H_C04_chain3() { rhChainRun(instance(), 3, 4) }
