package adaptation

// RH: result-level harness family (collect*Result, (*result).apply, responses).
// Shared symbolic constructors and the reference ownership oracle used by
// C01, C02, C04, C05.

import (
	"github.com/containerd/nri/pkg/api"
)

// item families ("item kinds" of C01)
const (
	famAnnotation = iota
	famEnv
	famMount
	famDevice
	famCDI
	famRlimit
	famHugepage
	famUnified
	famArgs
	famCgroupsPath
	famOom
	famMemLimit
	famMemReservation
	famMemSwap
	famMemKernel
	famMemKernelTcp
	famMemSwappiness
	famMemDisableOom
	famMemUseHierarchy
	famCpuShares
	famCpuQuota
	famCpuPeriod
	famCpuRtRuntime
	famCpuRtPeriod
	famCpuCpus
	famCpuMems
	famPids
	famBlockio
	famRdt
	numFams
)

var famNames = [...]string{"annotation", "env", "mount", "device", "cdi", "rlimit", "hugepage", "unified", "args",
	"cgroupspath", "oom", "memlimit", "memreservation", "memswap", "memkernel", "memkerneltcp", "memswappiness",
	"memdisableoom", "memusehierarchy", "cpushares", "cpuquota", "cpuperiod", "cpurtruntime", "cpurtperiod",
	"cpus", "mems", "pids", "blockio", "rdt"}

// resource families are those that can also appear in container updates
var resFams = [...]int{famHugepage, famUnified, famMemLimit, famMemReservation, famMemSwap, famMemKernel, famMemKernelTcp,
	famMemSwappiness, famMemDisableOom, famMemUseHierarchy, famCpuShares, famCpuQuota, famCpuPeriod, famCpuRtRuntime,
	famCpuRtPeriod, famCpuCpus, famCpuMems, famPids, famBlockio, famRdt}

func famKeyed(f int) bool {
	return f == famAnnotation || f == famEnv || f == famMount || f == famDevice || f == famCDI ||
		f == famRlimit || f == famHugepage || f == famUnified
}

// families whose keys understand the '-' removal marker
func famRemovable(f int) bool {
	return f == famAnnotation || f == famEnv || f == famMount || f == famDevice
}

// sItem is one symbolic item of a plugin response.
// keyed families: key (possibly '-'-marked for removable families) and val.
// args: key holds args[0], val holds args[1] when two==true.
// scalar families: val / num hold the value.
type sItem struct {
	key string
	val string
	num int64
	two bool
	kind int
}

// symItems returns 0..max arbitrary items of family f (scalar families: 0..1).
func symItems(f int, max int) []sItem {
	if !famKeyed(f) && max > 1 {
		max = 1
	}
	n := choose(max + 1)
	items := make([]sItem, 0, n)
	for i := 0; i < n; i++ {
		it := sItem{}
		switch {
		case famKeyed(f):
			it.key = nondetString()
			it.val = nondetString()
		case f == famArgs:
			// 0: plain set [a] / [a b]   1: clear only [""]   2: clear and set ["" v]
			it.kind = choose(3)
			switch it.kind {
			case 0:
				shape("args=plain")
				it.key = nondetString()
				assume(it.key != "")
				it.two = nondetBool()
				if it.two {
					it.val = nondetString()
				}
			case 1:
				shape("args=clear")
			case 2:
				shape("args=clear+set")
				it.two = true
				it.val = nondetString()
			}
		case f == famCgroupsPath, f == famCpuCpus, f == famCpuMems, f == famBlockio, f == famRdt:
			it.val = nondetString()
		default:
			it.num = nondetInt64()
		}
		items = append(items, it)
	}
	return items
}

// ---- reference predicates over items (pure terms, no forks) ----

// itemSets: does this item set the thing identified by probe (key for keyed families)?
func itemSets(f int, it sItem, probe string) bool {
	switch {
	case famRemovable(f):
		return band(bnot(hasDash(it.key)), it.key == probe)
	case famKeyed(f):
		return it.key == probe
	case f == famArgs:
		// a non-empty first argument sets the command line; "" followed by more sets it after clearing
		return it.kind != 1
	case f == famCgroupsPath, f == famCpuCpus, f == famCpuMems:
		return it.val != ""
	}
	return true
}

// itemRemoves: does this item mark probe for removal?
func itemRemoves(f int, it sItem, probe string) bool {
	switch {
	case famRemovable(f):
		return band(hasDash(it.key), trimDash(it.key) == probe)
	case f == famArgs:
		return it.kind != 0
	}
	return false
}

func anySets(f int, items []sItem, probe string) bool {
	r := false
	for _, it := range items {
		r = bor(r, itemSets(f, it, probe))
	}
	return r
}

func anyRemoves(f int, items []sItem, probe string) bool {
	r := false
	for _, it := range items {
		r = bor(r, itemRemoves(f, it, probe))
	}
	return r
}

// probeOf: the identity under which an item is claimed (key for keyed families, "" otherwise).
func probeOf(f int, it sItem) string {
	if famKeyed(f) {
		return it.key
	}
	return ""
}

// wellFormed: no item is set twice inside one response (A-WF).
func wellFormed(f int, items []sItem) bool {
	r := true
	for i := range items {
		for j := i + 1; j < len(items); j++ {
			p := probeOf(f, items[i])
			r = band(r, bnot(band(itemSets(f, items[i], p), itemSets(f, items[j], p))))
		}
	}
	return r
}

// expectedConflict: with earlier plugins' item lists prev[0..j-1] (all applied successfully)
// does plugin j's list cur collide with a live claim?  Reference model of the statement of
// C01/C02: a claim by plugin i on x is live at j unless some plugin m, i < m <= j, marks x for removal.
func expectedConflict(f int, prev [][]sItem, cur []sItem) bool {
	r := false
	for _, y := range cur {
		p := probeOf(f, y)
		ySets := itemSets(f, y, p)
		selfRemoves := anyRemoves(f, cur, p)
		for i := range prev {
			live := anySets(f, prev[i], p)
			for m := i + 1; m < len(prev); m++ {
				live = band(live, bnot(anyRemoves(f, prev[m], p)))
			}
			r = bor(r, band(band(ySets, bnot(selfRemoves)), live))
		}
	}
	return r
}

// ---- builders ----

func optI64(v int64) *api.OptionalInt64   { return &api.OptionalInt64{Value: v} }
func optU64(v int64) *api.OptionalUInt64  { return &api.OptionalUInt64{Value: uint64(v)} }
func optBool(v int64) *api.OptionalBool   { return &api.OptionalBool{Value: v&1 == 1} }
func optStr(v string) *api.OptionalString { return &api.OptionalString{Value: v} }

// buildResources builds a LinuxResources carrying the items of a resource family.
func buildResources(f int, items []sItem) *LinuxResources {
	if len(items) == 0 {
		if nondetBool() {
			return nil
		}
		return &LinuxResources{}
	}
	res := &LinuxResources{}
	for _, it := range items {
		switch f {
		case famHugepage:
			res.HugepageLimits = append(res.HugepageLimits, &HugepageLimit{PageSize: it.key, Limit: uint64(len(it.val))})
		case famUnified:
			if res.Unified == nil {
				res.Unified = map[string]string{}
			}
			res.Unified[it.key] = it.val
		case famMemLimit, famMemReservation, famMemSwap, famMemKernel, famMemKernelTcp, famMemSwappiness, famMemDisableOom, famMemUseHierarchy:
			if res.Memory == nil {
				res.Memory = &LinuxMemory{}
			}
			switch f {
			case famMemLimit:
				res.Memory.Limit = optI64(it.num)
			case famMemReservation:
				res.Memory.Reservation = optI64(it.num)
			case famMemSwap:
				res.Memory.Swap = optI64(it.num)
			case famMemKernel:
				res.Memory.Kernel = optI64(it.num)
			case famMemKernelTcp:
				res.Memory.KernelTcp = optI64(it.num)
			case famMemSwappiness:
				res.Memory.Swappiness = optU64(it.num)
			case famMemDisableOom:
				res.Memory.DisableOomKiller = optBool(it.num)
			case famMemUseHierarchy:
				res.Memory.UseHierarchy = optBool(it.num)
			}
		case famCpuShares, famCpuQuota, famCpuPeriod, famCpuRtRuntime, famCpuRtPeriod, famCpuCpus, famCpuMems:
			if res.Cpu == nil {
				res.Cpu = &LinuxCPU{}
			}
			switch f {
			case famCpuShares:
				res.Cpu.Shares = optU64(it.num)
			case famCpuQuota:
				res.Cpu.Quota = optI64(it.num)
			case famCpuPeriod:
				res.Cpu.Period = optU64(it.num)
			case famCpuRtRuntime:
				res.Cpu.RealtimeRuntime = optI64(it.num)
			case famCpuRtPeriod:
				res.Cpu.RealtimePeriod = optU64(it.num)
			case famCpuCpus:
				res.Cpu.Cpus = it.val
			case famCpuMems:
				res.Cpu.Mems = it.val
			}
		case famPids:
			res.Pids = &api.LinuxPids{Limit: it.num}
		case famBlockio:
			res.BlockioClass = optStr(it.val)
		case famRdt:
			res.RdtClass = optStr(it.val)
		}
	}
	return res
}

func isResFam(f int) bool {
	for _, r := range resFams {
		if r == f {
			return true
		}
	}
	return false
}

// buildAdjust builds a ContainerAdjustment carrying the items of family f.
func buildAdjust(f int, items []sItem) *ContainerAdjustment {
	a := &ContainerAdjustment{}
	if isResFam(f) {
		a.Linux = &LinuxContainerAdjustment{Resources: buildResources(f, items)}
		return a
	}
	for _, it := range items {
		switch f {
		case famAnnotation:
			if a.Annotations == nil {
				a.Annotations = map[string]string{}
			}
			a.Annotations[it.key] = it.val
		case famEnv:
			a.Env = append(a.Env, &KeyValue{Key: it.key, Value: it.val})
		case famMount:
			a.Mounts = append(a.Mounts, &Mount{Destination: it.key, Source: it.val, Type: "bind"})
		case famDevice:
			if a.Linux == nil {
				a.Linux = &LinuxContainerAdjustment{}
			}
			a.Linux.Devices = append(a.Linux.Devices, &LinuxDevice{Path: it.key, Type: it.val})
		case famCDI:
			a.CDIDevices = append(a.CDIDevices, &CDIDevice{Name: it.key})
		case famRlimit:
			a.Rlimits = append(a.Rlimits, &POSIXRlimit{Type: it.key, Hard: uint64(len(it.val))})
		case famArgs:
			if it.two {
				a.Args = []string{it.key, it.val}
			} else {
				a.Args = []string{it.key}
			}
		case famCgroupsPath:
			if a.Linux == nil {
				a.Linux = &LinuxContainerAdjustment{}
			}
			a.Linux.CgroupsPath = it.val
		case famOom:
			if a.Linux == nil {
				a.Linux = &LinuxContainerAdjustment{}
			}
			a.Linux.OomScoreAdj = &OptionalInt{Value: it.num}
		}
	}
	return a
}

// symOriginal builds a creation request whose container has 0..1 pre-existing items of family f
// and arbitrary presence of the optional sub-objects.
func symOriginal(f int) *CreateContainerRequest {
	c := &Container{Id: nondetString()}
	if rhConcreteNames {
		c.Id = "ctr0"
	}
	if rhNoOriginal {
		// bound: the original container carries no item of the family
	} else if f == famArgs {
		if nondetBool() {
			c.Args = []string{nondetString()}
		}
	} else if nondetBool() {
		pre := symItems(f, 1)
		if rhOrigHook != nil {
			pre = rhOrigHook()
		}
		if len(pre) == 1 {
			it := pre[0]
			switch f {
			case famAnnotation:
				c.Annotations = map[string]string{it.key: it.val}
			case famEnv:
				c.Env = []string{it.key}
			case famMount:
				c.Mounts = []*Mount{{Destination: it.key, Source: it.val}}
			case famDevice:
				c.Linux = &LinuxContainer{Devices: []*LinuxDevice{{Path: it.key}}}
			case famRlimit:
				c.Rlimits = []*POSIXRlimit{{Type: it.key}}
			case famCgroupsPath:
				c.Linux = &LinuxContainer{CgroupsPath: it.val}
			case famOom:
				c.Linux = &LinuxContainer{OomScoreAdj: &OptionalInt{Value: it.num}}
			default:
				if isResFam(f) {
					c.Linux = &LinuxContainer{Resources: buildResources(f, pre)}
				}
			}
		}
	}
	return &CreateContainerRequest{Container: c, Pod: &PodSandbox{}}
}

// rhSameTarget: set by harnesses in which every plugin updates the same (arbitrary) container.
var rhSameTarget bool

// rhItemsHook / rhOrigHook: when set, the items of plugin j / of the original container come from the harness
// instead of symItems (used by the chain harnesses, which fix the keys to a small concrete set).
var rhItemsHook func(j int) []sItem
var rhOrigHook func() []sItem

// rhConcreteNames: plugin names and the container id are fixed strings (chain harnesses).
var rhConcreteNames bool

// rhNoOriginal: set by harnesses that fix the original container to carry no item of the family.
var rhNoOriginal bool

// symPlugins returns n pairwise distinct non-empty plugin names.
func symPlugins(n int) []string {
	ps := make([]string, n)
	if rhConcreteNames {
		for i := range ps {
			ps[i] = "plugin-" + itoa(i)
		}
		return ps
	}
	for i := range ps {
		ps[i] = nondetString()
		assume(ps[i] != "")
		for j := 0; j < i; j++ {
			assume(ps[i] != ps[j])
		}
	}
	return ps
}

// ---- updates ----

// fullResources: every resource field present with arbitrary values (a pre-populated runtime request).
func fullResources() *LinuxResources {
	return &LinuxResources{
		Memory: &LinuxMemory{Limit: optI64(nondetInt64()), Reservation: optI64(nondetInt64()), Swap: optI64(nondetInt64()),
			Kernel: optI64(nondetInt64()), KernelTcp: optI64(nondetInt64()), Swappiness: optU64(nondetInt64()),
			DisableOomKiller: optBool(nondetInt64()), UseHierarchy: optBool(nondetInt64())},
		Cpu: &LinuxCPU{Shares: optU64(nondetInt64()), Quota: optI64(nondetInt64()), Period: optU64(nondetInt64()),
			RealtimeRuntime: optI64(nondetInt64()), RealtimePeriod: optU64(nondetInt64()), Cpus: nondetString(), Mems: nondetString()},
		HugepageLimits: []*HugepageLimit{{PageSize: nondetString(), Limit: uint64(nondetInt64())}},
		BlockioClass:   optStr(nondetString()),
		RdtClass:       optStr(nondetString()),
		Unified:        map[string]string{nondetString(): nondetString()},
		Pids:           &api.LinuxPids{Limit: nondetInt64()},
	}
}

// request kinds for update harnesses
const (
	reqCreate = iota
	reqUpdate
	reqStop
)

var reqNames = [...]string{"create", "update", "stop"}

// symUpdateResult builds the result collector for a request of the given kind; returns it with the
// id of the request's own container. prepop: 0 = no resources in the update request, 1 = only family f
// present, 2 = every field present.
func symUpdateResult(kind int, f int, prepop int) (*result, string) {
	switch kind {
	case reqCreate:
		req := symOriginal(f)
		return collectCreateContainerResult(req), req.Container.Id
	case reqUpdate:
		own := nondetString()
		req := &UpdateContainerRequest{Container: &Container{Id: own}, Pod: &PodSandbox{}}
		switch prepop {
		case 1:
			req.LinuxResources = buildResources(f, symItems(f, 1))
		case 2:
			req.LinuxResources = fullResources()
		}
		return collectUpdateContainerResult(req), own
	}
	return collectStopContainerResult(), ""
}

func wrapUpdates(kind int, us []*ContainerUpdate) interface{} {
	switch kind {
	case reqCreate:
		return &CreateContainerResponse{Update: us}
	case reqUpdate:
		return &UpdateContainerResponse{Update: us}
	}
	return &StopContainerResponse{Update: us}
}

// rhUpdateRun: plugin j sends one update of family fams[j] (<= maxItems[j] items) to an arbitrary target.
// mode 1 = C01 direction, mode 2 = C02 direction.
func rhUpdateRun(kind int, fams []int, maxItems []int, prepop int, mode int) {
	shape("req=" + reqNames[kind])
	for _, f := range fams {
		shape("fam=" + famNames[f])
	}
	r, own := symUpdateResult(kind, fams[0], prepop)
	n := len(fams)
	ps := symPlugins(n)
	var prev [][]sItem
	var targets []string
	for j := 0; j < n; j++ {
		f := fams[j]
		cur := symItems(f, maxItems[j])
		t := nondetString()
		if rhSameTarget && len(targets) > 0 {
			t = targets[0]
		}
		if kind == reqCreate {
			assume(t != own) // updating the container under creation is C05's subject
		}
		wf := wellFormed(f, cur)
		// expected conflict: an earlier plugin set the same item of the same target
		exp := false
		for i := range prev {
			if fams[i] != f {
				continue
			}
			same := targets[i] == t
			exp = bor(exp, band(same, expectedConflict(f, [][]sItem{prev[i]}, cur)))
		}
		u := &ContainerUpdate{ContainerId: t, Linux: &LinuxContainerUpdate{Resources: buildResources(f, cur)}}
		err := r.apply(wrapUpdates(kind, []*ContainerUpdate{u}), ps[j])
		if mode == 1 {
			coverIf(exp, "collision")
			if err == nil {
				vassert(bnot(exp), "undetected-update-collision")
			}
		} else {
			coverIf(band(wf, bnot(exp)), "conflict-free")
			if err != nil {
				vassert(bor(bnot(wf), exp), "spurious-update-conflict")
			}
		}
		if err != nil {
			return
		}
		assume(wf)
		prev = append(prev, cur)
		targets = append(targets, t)
	}
}

// symPluginsAnyNames returns n non-empty plugin names that may coincide (NRI does not enforce unique names).
func symPluginsAnyNames(n int) []string {
	ps := make([]string, n)
	for i := range ps {
		ps[i] = nondetString()
		assume(ps[i] != "")
	}
	return ps
}
