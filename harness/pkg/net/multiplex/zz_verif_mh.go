package multiplex

// MH: multiplexer harness family. The trunk net.Conn is an environment object: it records what is
// written, delivers a scripted byte stream (optionally in partial reads), blocks when the stream is
// exhausted, and fails on demand.

import (
	"encoding/binary"
	"errors"
	"io"
	"net"
	"sync"
	"time"
)

type envTrunk struct {
	writes   [][]byte // one entry per Write call (copies)
	chunks   [][]byte // what Read delivers, chunk by chunk
	ci, off  int
	splitAt  int
	partial  bool // deliver arbitrary non-empty prefixes of what is available
	eofAtEnd bool // return io.EOF when the stream is exhausted (otherwise block forever)
	never    chan struct{}
	closed   int
	failWrite int // fail the k-th Write call (1-based; 0 = never) after an arbitrary prefix
	wrote    int
	readErr  error // returned instead of EOF at the end when set
	mu       *sync.Mutex // when set, Write calls are atomic and scheduling points (as on a socket)
	cutInside bool       // the failed Write got part of its bytes out (the stream now ends inside a frame)
}

var errTrunk = errors.New("trunk failure")

func (t *envTrunk) Write(b []byte) (int, error) {
	if t.mu != nil {
		t.mu.Lock()
		defer t.mu.Unlock()
	}
	t.wrote++
	if t.closed > 0 {
		return 0, net.ErrClosed
	}
	if t.failWrite > 0 && t.wrote == t.failWrite {
		n := nondetInt()
		assume(n >= 0)
		assume(n < len(b)) // a failing write is a short write
		rec := make([]byte, n)
		copy(rec, b[:n])
		t.writes = append(t.writes, rec)
		t.cutInside = n > 0
		return n, errTrunk
	}
	rec := make([]byte, len(b))
	copy(rec, b)
	t.writes = append(t.writes, rec)
	return len(b), nil
}

func (t *envTrunk) Read(b []byte) (int, error) {
	for t.ci < len(t.chunks) && t.off >= len(t.chunks[t.ci]) {
		t.ci++
		t.off = 0
	}
	if t.ci >= len(t.chunks) {
		if t.readErr != nil {
			return 0, t.readErr
		}
		if t.eofAtEnd || t.closed > 0 {
			return 0, io.EOF
		}
		<-t.never // block forever
		return 0, io.EOF
	}
	if len(b) == 0 {
		return 0, nil
	}
	c := t.chunks[t.ci]
	avail := len(c) - t.off
	n := avail
	if len(b) < n {
		n = len(b)
	}
	if t.partial && t.splitAt != t.ci {
		// at most one split per chunk (two partial reads): stated bound
		t.splitAt = t.ci
		k := nondetInt()
		assume(k >= 1)
		assume(k <= n)
		n = k
	}
	copy(b[:n], c[t.off:t.off+n])
	t.off += n
	return n, nil
}

func (t *envTrunk) Close() error                       { t.closed++; return nil }
func (t *envTrunk) LocalAddr() net.Addr                { return nil }
func (t *envTrunk) RemoteAddr() net.Addr               { return nil }
func (t *envTrunk) SetDeadline(time.Time) error        { return nil }
func (t *envTrunk) SetReadDeadline(time.Time) error    { return nil }
func (t *envTrunk) SetWriteDeadline(time.Time) error   { return nil }

// rawMux builds a mux without starting its reader goroutine.
func rawMux(t net.Conn, qlen int) *mux {
	m := &mux{trunk: t, conns: make(map[ConnID]*conn), qlen: qlen, doneC: make(chan struct{}), blockC: make(chan struct{})}
	close(m.blockC)
	return m
}

func be32(b []byte) uint32 { return binary.BigEndian.Uint32(b) }

// symPayloadLen: an arbitrary payload length in [0, max].
func symPayloadLen(max int) int {
	l := nondetInt()
	assume(l >= 0)
	assume(l <= max)
	return l
}
