package multiplex

// C11: the multiplexer fails stop: no gaps after errors, nothing hangs after close.
// C07 (transport part): a trunk write failure surfaces as an error that still wraps the trunk's error.

import (
	"errors"
	"io"
	"net"
)

// H_C11_cut: three frames (two on connection a, one on b) are written through mux A; its trunk fails on an
// arbitrary Write call after an arbitrary prefix of that call's bytes (= the byte stream is cut at an
// arbitrary offset inside a header or a payload); mux B reads what got out and then sees EOF or an
// arbitrary trunk error. Every frame B delivers on a connection is, in order, one of the frames sent on it
// (prefix, no gap, no damaged frame); afterwards reads return an error (EOF after an orderly end) and so do
// writes; a failed write is reported to the writer with the trunk's error wrapped.
//verif:property C11
//verif:symbytes
//verif:preempt 0
//verif:instances 7
//verif:expect-cover cut delivered
func H_C11_cut() {
	ta := &envTrunk{failWrite: instance()} // 0: no failure, 1..6: that trunk write fails
	a := rawMux(ta, 4)
	ida, idb := ConnID(1), ConnID(2)
	var L [3]int
	var p [3][]byte
	ids := [3]ConnID{ida, idb, ida}
	var werr [3]error
	sent := 0
	for i := 0; i < 3; i++ {
		L[i] = symPayloadLen(maxPayloadSize)
		p[i] = nondetBytes(L[i])
		_, werr[i] = a.write(ids[i], p[i])
		if werr[i] != nil {
			cover("cut")
			vassert(errors.Is(werr[i], errTrunk), "trunk-error-not-wrapped")
			break
		}
		sent++
	}
	if instance() == 0 {
		vassert(sent == 3, "write-error-without-fault")
	}
	if ta.cutInside {
		// part of a header or payload got out: the stream cannot be continued - the mux fails stop, the trunk
		// is closed and later writes on every connection return an error instead of being read by the peer as
		// the rest of the cut frame
		vassert(ta.closed > 0, "trunk-left-open-after-a-cut-frame")
		_, lerr := a.write(idb, nondetBytes(1))
		vassert(lerr != nil, "write-after-a-cut-frame-succeeds")
	}
	tb := &envTrunk{splitAt: -1, chunks: ta.writes, eofAtEnd: true}
	orderly := nondetBool()
	if !orderly {
		tb.readErr = errTrunk
	}
	b := rawMux(tb, 4)
	ca, _ := b.Open(ida)
	cb, _ := b.Open(idb)
	b.reader() // runs until the stream ends (EOF / error), then closes the mux

	j := nondetInt()
	assume(j >= 0)
	// connection a: frames 0 and 2 in order; connection b: frame 1
	wantA := [2]int{0, 2}
	got := 0
	for k := 0; k < 3; k++ {
		buf := nondetBytes(maxPayloadSize)
		n, err := ca.Read(buf)
		if err != nil {
			if orderly && instance() == 0 {
				// the stream ended on a frame boundary: end-of-file
				vassert(err == io.EOF, "orderly-close-not-eof")
			}
			break
		}
		vassert(got < 2, "more-frames-than-sent")
		if got >= 2 {
			break
		}
		f := wantA[got]
		vassert(f < sent || (f == sent && false), "frame-delivered-that-was-not-completely-sent")
		vassert(n == L[f], "frame-length")
		if j < L[f] && n == L[f] {
			vassert(buf[j] == p[f][j], "frame-content")
		}
		got++
		cover("delivered")
	}
	bufb := nondetBytes(maxPayloadSize)
	n, err := cb.Read(bufb)
	if err == nil {
		vassert(1 < sent, "frame-delivered-that-was-not-completely-sent")
		vassert(n == L[1], "frame-length")
		if j < L[1] && n == L[1] {
			vassert(bufb[j] == p[1][j], "frame-content")
		}
	}
	// after the failure everything returns errors
	_, e2 := cb.Read(bufb)
	_, e3 := cb.Read(bufb)
	vassert(e2 != nil || e3 != nil, "read-after-close-succeeds")
	_, we := ca.Write(nondetBytes(1))
	vassert(we != nil, "write-after-close-succeeds")
	vassert(tb.closed > 0, "trunk-left-open")
}

// H_C11_overflow: the receive queue (length 1) overflows on the second frame of a connection nobody reads:
// the mux fails stop - the overflowing frame is dropped together with everything after it.
//verif:property C11
//verif:symbytes
//verif:preempt 0
//verif:expect-cover overflow
func H_C11_overflow() {
	ta := &envTrunk{}
	a := rawMux(ta, 4)
	id := ConnID(7)
	var L [3]int
	var p [3][]byte
	for i := 0; i < 3; i++ {
		L[i] = symPayloadLen(64)
		p[i] = nondetBytes(L[i])
		a.write(id, p[i])
	}
	tb := &envTrunk{splitAt: -1, chunks: ta.writes, eofAtEnd: true}
	b := rawMux(tb, 1)
	c, _ := b.Open(id)
	b.reader()
	cover("overflow")
	vassert(tb.closed > 0, "overflow-did-not-close-the-mux")
	buf := nondetBytes(64)
	n, err := c.Read(buf)
	if err == nil {
		vassert(n == L[0], "frame-after-gap-delivered")
		j := nondetInt()
		assume(j >= 0)
		if j < L[0] && n == L[0] {
			vassert(buf[j] == p[0][j], "frame-content")
		}
		_, err2 := c.Read(buf)
		vassert(err2 != nil, "frame-after-overflow-delivered")
	}
}

// H_C11_close: closers run concurrently (mux.Close, conn.Close twice, listener.Close) with a blocked reader
// and a blocked Accept: nothing panics, nothing deadlocks, the blocked calls return errors (EOF).
//verif:property C11
//verif:symbytes
//verif:preempt 1
//verif:maxgoroutines 8
//verif:expect-cover done
func H_C11_close() {
	t := &envTrunk{never: make(chan struct{})}
	m := rawMux(t, 2)
	go m.reader()
	c1, _ := m.Open(1)
	l, _ := m.Listen(2)
	ac, aerr := l.Accept()
	vassert(aerr == nil && ac != nil, "first-accept")
	res := make(chan error, 4)
	go func() {
		_, err := c1.Read(nondetBytes(16))
		res <- err
	}()
	go func() {
		_, err := l.Accept()
		res <- err
	}()
	go func() { m.Close(); res <- nil }()
	go func() { c1.Close(); c1.Close(); res <- nil }()
	l.Close()
	m.Close()
	for i := 0; i < 4; i++ {
		err := <-res
		_ = err
	}
	_, rerr := c1.Read(nondetBytes(16))
	vassert(rerr != nil, "read-after-close-succeeds")
	_, werr := c1.Write(nondetBytes(1))
	vassert(werr != nil, "write-after-close-succeeds")
	_, aerr2 := l.Accept()
	vassert(aerr2 == io.EOF, "accept-after-close")
	cover("done")
	_ = net.ErrClosed
}

// H_C07_trunk_error_wrapped: ttrpc classifies transport failures by unwrapping the error the mux returns
// (C07's "disconnected plugin is dropped" rests on it): a failed trunk write must come back wrapping the
// trunk's own error, whichever of the two writes of a frame fails.
//verif:property C07
//verif:symbytes
//verif:preempt 0
//verif:instances 2
//verif:expect-cover failed
func H_C07_trunk_error_wrapped() {
	t := &envTrunk{failWrite: 1 + instance()}
	m := rawMux(t, 4)
	c, _ := m.Open(3)
	L := symPayloadLen(64)
	assume(L > 0)
	_, err := c.Write(nondetBytes(L))
	cover("failed")
	vassert(err != nil, "write-error-swallowed")
	vassert(errors.Is(err, errTrunk), "trunk-error-not-wrapped")
}

// H_C11_reopen: a connection id is opened, closed, opened again, and the stale first handle is closed once
// more (Close is idempotent and must only affect its own connection). A frame for that id then arrives and
// the trunk ends: the live connection receives the frame and afterwards end-of-file - it is neither cut off
// from the reader nor left blocked when the mux shuts down (a Read that never returns is reported as a
// deadlock by the engine).
//verif:property C11
//verif:symbytes
//verif:preempt 0
//verif:expect-cover done delivered
func H_C11_reopen() { reopenRun() }

// H_C10_reopen: the same scenario seen from C10: what is written to a connection id reaches the connection
// currently open under that id, also after an earlier connection with the same id was closed (twice).
//verif:property C10
//verif:symbytes
//verif:preempt 0
//verif:expect-cover done delivered
func H_C10_reopen() { reopenRun() }

func reopenRun() {
	ta := &envTrunk{}
	a := rawMux(ta, 4)
	id := ConnID(nondetUint32())
	assume(id != 0)
	L := symPayloadLen(64)
	p := nondetBytes(L)
	_, werr := a.write(id, p)
	vassert(werr == nil, "write-error")

	tb := &envTrunk{splitAt: -1, chunks: ta.writes, eofAtEnd: true}
	b := rawMux(tb, 4)
	stale, _ := b.Open(id)
	stale.Close()
	live, _ := b.Open(id)
	vassert(!sameObject(stale, live), "closed-connection-handed-out-again")
	stale.Close() // second Close of the stale handle
	b.reader()    // delivers the frame, meets EOF, closes the mux
	buf := nondetBytes(64)
	n, err := live.Read(buf)
	// (once the mux is closed a Read may report the end instead of a queued frame: both outcomes are explored)
	if err == nil {
		cover("delivered")
		vassert(n == L, "frame-length")
		j := nondetInt()
		assume(j >= 0)
		if j < L && n == L {
			vassert(buf[j] == p[j], "frame-content")
		}
		_, err2 := live.Read(buf)
		vassert(err2 != nil, "read-after-close-succeeds")
	}
	_, serr := stale.Read(nondetBytes(8))
	vassert(serr != nil, "read-on-closed-connection-succeeds")
	cover("done")
}
