package multiplex

import "sync"

// C10: multiplexed connections deliver each stream complete, in order and isolated.

// H_C10_framing: one Write of arbitrary length 0..3*max+5 on an arbitrary connection id produces
// (header, payload)* on the trunk: headers carry the id and the payload length, payload lengths are
// <= max and add up to L, payload bytes are consecutive slices of the caller's buffer (pointwise at an
// arbitrary index), exactly one (empty) frame for L = 0; the call returns (L, nil).
//verif:property C10
//verif:symbytes
//verif:preempt 0
//verif:expect-cover single multi empty
func H_C10_framing() {
	t := &envTrunk{}
	m := rawMux(t, 4)
	L := symPayloadLen(3*maxPayloadSize + 5)
	id := ConnID(nondetUint32())
	buf := nondetBytes(L)
	n, err := m.write(id, buf)
	vassert(err == nil, "write-error")
	vassert(n == L, "write-count")
	vassert(len(t.writes)%2 == 0 && len(t.writes) >= 2, "frame-structure")
	if len(t.writes)%2 != 0 || len(t.writes) < 2 {
		return
	}
	j := nondetInt() // arbitrary byte position of the caller's buffer
	assume(j >= 0)
	if L > 0 {
		assume(j < L)
	}
	total := 0
	for k := 0; k+1 < len(t.writes); k += 2 {
		hdr, pl := t.writes[k], t.writes[k+1]
		vassert(len(hdr) == headerLen, "header-length")
		if len(hdr) != headerLen {
			return
		}
		vassert(be32(hdr[0:4]) == uint32(id), "header-conn-id")
		vassert(int(be32(hdr[4:8])) == len(pl), "header-payload-length")
		vassert(len(pl) <= maxPayloadSize, "payload-exceeds-maximum")
		if k+2 < len(t.writes) {
			vassert(len(pl) == maxPayloadSize, "short-frame-before-the-last")
		}
		if L > 0 && j >= total && j < total+len(pl) {
			vassert(pl[j-total] == buf[j], "payload-content")
		}
		total += len(pl)
	}
	vassert(total == L, "payload-total")
	switch {
	case L == 0:
		cover("empty")
		vassert(len(t.writes) == 2, "empty-payload-frames")
	case len(t.writes) == 2:
		cover("single")
	default:
		cover("multi")
	}
}

// H_C10_pipe: two Writes on connection ids a and b (equal or different) go through the real writer of mux A
// onto a recorded trunk; mux B's real reader goroutine demultiplexes that stream (optionally delivered in
// partial reads); Reads on B return, per connection, exactly the frames written to that id, in order.
//verif:property C10
//verif:symbytes
//verif:preempt 0
//verif:instances 2
//verif:expect-cover same-id different-ids
func H_C10_pipe() {
	ta := &envTrunk{}
	a := rawMux(ta, 4)
	ida, idb := ConnID(nondetUint32()), ConnID(nondetUint32())
	assume(ida != 0)
	assume(idb != 0)
	L1, L2 := symPayloadLen(maxPayloadSize), symPayloadLen(maxPayloadSize)
	p1, p2 := nondetBytes(L1), nondetBytes(L2)
	_, e1 := a.write(ida, p1)
	_, e2 := a.write(idb, p2)
	vassert(e1 == nil && e2 == nil, "write-error")

	tb := &envTrunk{splitAt: -1, chunks: ta.writes, never: make(chan struct{}), partial: instance() == 1}
	b := rawMux(tb, 2)
	ca, _ := b.Open(ida)
	cb, _ := b.Open(idb)
	if c, ok := ca.(*conn); ok {
		vassert(cap(c.readC) == 2, "configured-queue-length-ignored")
	}
	go b.reader()

	rbuf := nondetBytes(maxPayloadSize)
	j := nondetInt()
	assume(j >= 0)
	n, err := ca.Read(rbuf)
	vassert(err == nil, "read-error")
	vassert(n == L1, "first-frame-length")
	if j < L1 && n == L1 {
		vassert(rbuf[j] == p1[j], "first-frame-content")
	}
	rbuf2 := nondetBytes(maxPayloadSize)
	n2, err2 := cb.Read(rbuf2)
	vassert(err2 == nil, "read-error")
	vassert(n2 == L2, "second-frame-length")
	if j < L2 && n2 == L2 {
		vassert(rbuf2[j] == p2[j], "second-frame-content")
	}
	if ida == idb {
		cover("same-id")
	} else {
		cover("different-ids")
	}
}

// H_C10_concurrent_writers: two goroutines write concurrently through one mux, on different connection ids,
// payloads of arbitrary lengths (the first up to max+3, i.e. possibly two frames; the second up to max); the
// trunk's Write is atomic per call and a scheduling point, as on a socket. Whatever the interleaving, the
// trunk stream is a sequence of complete frames - every header immediately followed by its own payload -
// and the payload bytes recorded for an id are, in order, exactly the bytes its writer passed.
//verif:property C10
//verif:symbytes
//verif:preempt 2
//verif:expect-cover two-frames three-frames
func H_C10_concurrent_writers() {
	t := &envTrunk{mu: &sync.Mutex{}}
	m := rawMux(t, 4)
	ida, idb := ConnID(nondetUint32()), ConnID(nondetUint32())
	assume(ida != idb)
	L1, L2 := symPayloadLen(maxPayloadSize+3), symPayloadLen(maxPayloadSize)
	p1, p2 := nondetBytes(L1), nondetBytes(L2)
	var wg sync.WaitGroup
	var n1, n2 int
	var e1, e2 error
	wg.Add(2)
	go func() {
		n1, e1 = m.write(ida, p1)
		wg.Done()
	}()
	go func() {
		n2, e2 = m.write(idb, p2)
		wg.Done()
	}()
	wg.Wait()
	vassert(e1 == nil && e2 == nil, "write-error")
	vassert(n1 == L1 && n2 == L2, "write-count")
	vassert(len(t.writes)%2 == 0, "frame-structure")
	if len(t.writes)%2 != 0 {
		return
	}
	j := nondetInt()
	assume(j >= 0)
	tot1, tot2 := 0, 0
	for k := 0; k+1 < len(t.writes); k += 2 {
		hdr, pl := t.writes[k], t.writes[k+1]
		vassert(len(hdr) == headerLen, "header-followed-by-something-else")
		if len(hdr) != headerLen {
			return
		}
		id := ConnID(be32(hdr[0:4]))
		vassert(int(be32(hdr[4:8])) == len(pl), "header-not-followed-by-its-payload")
		vassert(id == ida || id == idb, "frame-for-unknown-connection")
		if id == ida {
			if j >= tot1 && j < tot1+len(pl) && j < L1 {
				vassert(pl[j-tot1] == p1[j], "bytes-of-another-writer-in-the-stream")
			}
			tot1 += len(pl)
		} else if id == idb {
			if j >= tot2 && j < tot2+len(pl) && j < L2 {
				vassert(pl[j-tot2] == p2[j], "bytes-of-another-writer-in-the-stream")
			}
			tot2 += len(pl)
		}
	}
	vassert(tot1 == L1 && tot2 == L2, "stream-incomplete")
	if len(t.writes) == 4 {
		cover("two-frames")
	} else if len(t.writes) == 6 {
		cover("three-frames")
	}
}
