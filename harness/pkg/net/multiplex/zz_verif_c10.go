package multiplex

import "sync"

// C10: multiplexed connections deliver each stream complete, in order and isolated.

// H_C10_framing: one Write of arbitrary length 0..3*max+5 on an arbitrary connection id produces
// (header, payload)* on the trunk: headers carry the id and the payload length, payload lengths are
// <= max and add up to L, payload bytes are consecutive slices of the caller's buffer (pointwise at an
// arbitrary index), exactly one (empty) frame for L = 0; the call returns (L, nil).
//verif:property C10
//verif:symbytes
//verif:preempt 0
//verif:expect-cover single multi empty
func H_C10_framing() {
	t := &envTrunk{}
	m := rawMux(t, 4)
	L := symPayloadLen(3*maxPayloadSize + 5)
	id := ConnID(nondetUint32())
	buf := nondetBytes(L)
	n, err := m.write(id, buf)
	vassert(err == nil, "write-error")
	vassert(n == L, "write-count")
	// the trunk stream is what counts, not how it was cut into Write calls
	stream := trunkStream(t)
	j := nondetInt() // arbitrary byte position of the caller's buffer
	assume(j >= 0)
	if L > 0 {
		assume(j < L)
	}
	total, frames, off := 0, 0, 0
	for off < len(stream) {
		vassert(off+headerLen <= len(stream), "frame-structure")
		if off+headerLen > len(stream) {
			return
		}
		pl := int(be32(stream[off+4 : off+8]))
		vassert(be32(stream[off:off+4]) == uint32(id), "header-conn-id")
		vassert(off+headerLen+pl <= len(stream), "header-payload-length")
		if off+headerLen+pl > len(stream) {
			return
		}
		vassert(pl <= maxPayloadSize, "payload-exceeds-maximum")
		last := off+headerLen+pl == len(stream)
		if !last {
			vassert(pl == maxPayloadSize, "short-frame-before-the-last")
		}
		if L > 0 && j >= total && j < total+pl {
			vassert(stream[off+headerLen+j-total] == buf[j], "payload-content")
		}
		total += pl
		off += headerLen + pl
		frames++
		if frames > 5 {
			vassert(false, "more-frames-than-needed")
			return
		}
	}
	vassert(frames >= 1, "frame-structure")
	vassert(total == L, "payload-total")
	switch {
	case L == 0:
		cover("empty")
		vassert(frames == 1, "empty-payload-frames")
	case frames == 1:
		cover("single")
	default:
		cover("multi")
	}
}

// trunkStream: everything written to the trunk so far, as one byte stream.
func trunkStream(t *envTrunk) []byte {
	var stream []byte
	for _, w := range t.writes {
		stream = append(stream, w...)
	}
	return stream
}

// H_C10_pipe: two Writes on connection ids a and b (equal or different) go through the real writer of mux A
// onto a recorded trunk; mux B's real reader goroutine demultiplexes that stream (optionally delivered in
// partial reads); Reads on B return, per connection, exactly the frames written to that id, in order.
//verif:property C10
//verif:symbytes
//verif:preempt 0
//verif:instances 2
//verif:expect-cover same-id different-ids
func H_C10_pipe() {
	ta := &envTrunk{}
	a := rawMux(ta, 4)
	ida, idb := ConnID(nondetUint32()), ConnID(nondetUint32())
	assume(ida != 0)
	assume(idb != 0)
	L1, L2 := symPayloadLen(maxPayloadSize), symPayloadLen(maxPayloadSize)
	p1, p2 := nondetBytes(L1), nondetBytes(L2)
	_, e1 := a.write(ida, p1)
	_, e2 := a.write(idb, p2)
	vassert(e1 == nil && e2 == nil, "write-error")

	tb := &envTrunk{splitAt: -1, chunks: ta.writes, never: make(chan struct{}), partial: instance() == 1}
	b := rawMux(tb, 2)
	ca, _ := b.Open(ida)
	cb, _ := b.Open(idb)
	if c, ok := ca.(*conn); ok {
		vassert(cap(c.readC) == 2, "configured-queue-length-ignored")
	}
	go b.reader()

	rbuf := nondetBytes(maxPayloadSize)
	j := nondetInt()
	assume(j >= 0)
	n, err := ca.Read(rbuf)
	vassert(err == nil, "read-error")
	vassert(n == L1, "first-frame-length")
	if j < L1 && n == L1 {
		vassert(rbuf[j] == p1[j], "first-frame-content")
	}
	rbuf2 := nondetBytes(maxPayloadSize)
	n2, err2 := cb.Read(rbuf2)
	vassert(err2 == nil, "read-error")
	vassert(n2 == L2, "second-frame-length")
	if j < L2 && n2 == L2 {
		vassert(rbuf2[j] == p2[j], "second-frame-content")
	}
	if ida == idb {
		cover("same-id")
	} else {
		cover("different-ids")
	}
}

// H_C10_concurrent_writers: two goroutines write concurrently through one mux, on different connection ids,
// payloads of arbitrary lengths (the first up to max+3, i.e. possibly two frames; the second up to max); the
// trunk's Write is atomic per call and a scheduling point, as on a socket. Whatever the interleaving, the
// trunk stream is a sequence of complete frames - every header immediately followed by its own payload -
// and the payload bytes recorded for an id are, in order, exactly the bytes its writer passed.
//verif:property C10
//verif:symbytes
//verif:preempt 2
//verif:expect-cover two-frames three-frames
func H_C10_concurrent_writers() {
	t := &envTrunk{mu: &sync.Mutex{}}
	m := rawMux(t, 4)
	ida, idb := ConnID(nondetUint32()), ConnID(nondetUint32())
	assume(ida != idb)
	L1, L2 := symPayloadLen(maxPayloadSize+3), symPayloadLen(maxPayloadSize)
	p1, p2 := nondetBytes(L1), nondetBytes(L2)
	var wg sync.WaitGroup
	var n1, n2 int
	var e1, e2 error
	wg.Add(2)
	go func() {
		n1, e1 = m.write(ida, p1)
		wg.Done()
	}()
	go func() {
		n2, e2 = m.write(idb, p2)
		wg.Done()
	}()
	wg.Wait()
	vassert(e1 == nil && e2 == nil, "write-error")
	vassert(n1 == L1 && n2 == L2, "write-count")
	// frames are recovered from the Write calls, whether a frame was written as header + payload or at once
	j := nondetInt()
	assume(j >= 0)
	tot1, tot2, frames := 0, 0, 0
	for k := 0; k < len(t.writes); {
		w := t.writes[k]
		vassert(len(w) >= headerLen, "header-followed-by-something-else")
		if len(w) < headerLen {
			return
		}
		id := ConnID(be32(w[0:4]))
		pl := int(be32(w[4:8]))
		var payload []byte
		if len(w) == headerLen && (pl > 0 || (k+1 < len(t.writes) && len(t.writes[k+1]) == 0)) {
			// header written on its own: the next Write is its payload
			vassert(k+1 < len(t.writes), "header-not-followed-by-its-payload")
			if k+1 >= len(t.writes) {
				return
			}
			payload = t.writes[k+1]
			k += 2
		} else {
			payload = w[headerLen:]
			k++
		}
		vassert(len(payload) == pl, "header-not-followed-by-its-payload")
		vassert(id == ida || id == idb, "frame-for-unknown-connection")
		if len(payload) != pl {
			return
		}
		if id == ida {
			if j >= tot1 && j < tot1+pl && j < L1 {
				vassert(payload[j-tot1] == p1[j], "bytes-of-another-writer-in-the-stream")
			}
			tot1 += pl
		} else if id == idb {
			if j >= tot2 && j < tot2+pl && j < L2 {
				vassert(payload[j-tot2] == p2[j], "bytes-of-another-writer-in-the-stream")
			}
			tot2 += pl
		}
		frames++
	}
	vassert(tot1 == L1 && tot2 == L2, "stream-incomplete")
	if frames == 2 {
		cover("two-frames")
	} else if frames == 3 {
		cover("three-frames")
	}
}

// H_C10_concurrent_same_conn: two goroutines write concurrently on the SAME connection id, the first a payload
// that needs two frames (max < L1 <= max+3), the second up to max. A Write is delivered as a unit: the bytes
// read from the connection are either all of the first Write followed by all of the second or the other way
// round - the chunks of an oversized Write are never interleaved with another Write's (decided with one
// arbitrary index per candidate order: both orders mismatching somewhere is the violation).
//verif:property C10
//verif:symbytes
//verif:preempt 2
//verif:expect-cover three-frames
func H_C10_concurrent_same_conn() {
	t := &envTrunk{mu: &sync.Mutex{}}
	m := rawMux(t, 4)
	id := ConnID(nondetUint32())
	L1 := nondetInt()
	assume(L1 > maxPayloadSize)
	assume(L1 <= maxPayloadSize+3)
	L2 := symPayloadLen(maxPayloadSize)
	assume(L2 >= 1)
	p1, p2 := nondetBytes(L1), nondetBytes(L2)
	var wg sync.WaitGroup
	var e1, e2 error
	wg.Add(2)
	go func() {
		_, e1 = m.write(id, p1)
		wg.Done()
	}()
	go func() {
		_, e2 = m.write(id, p2)
		wg.Done()
	}()
	wg.Wait()
	vassert(e1 == nil && e2 == nil, "write-error")
	var got []byte // what the peer reads from this connection: the payloads in trunk order
	frames := 0
	for k := 0; k < len(t.writes); {
		w := t.writes[k]
		if len(w) < headerLen {
			vassert(false, "header-followed-by-something-else")
			return
		}
		pl := int(be32(w[4:8]))
		var payload []byte
		if len(w) == headerLen && (pl > 0 || (k+1 < len(t.writes) && len(t.writes[k+1]) == 0)) {
			if k+1 >= len(t.writes) {
				vassert(false, "header-not-followed-by-its-payload")
				return
			}
			payload = t.writes[k+1]
			k += 2
		} else {
			payload = w[headerLen:]
			k++
		}
		if len(payload) != pl {
			vassert(false, "header-not-followed-by-its-payload")
			return
		}
		got = append(got, payload...)
		frames++
	}
	vassert(len(got) == L1+L2, "stream-incomplete")
	if len(got) != L1+L2 {
		return
	}
	j1, j2 := nondetInt(), nondetInt()
	assume(j1 >= 0)
	assume(j1 < L1+L2)
	assume(j2 >= 0)
	assume(j2 < L1+L2)
	var a, b byte
	if j1 < L1 { // order: first Write, then second
		a = p1[j1]
	} else {
		a = p2[j1-L1]
	}
	if j2 < L2 { // order: second Write, then first
		b = p2[j2]
	} else {
		b = p1[j2-L2]
	}
	vassert(bnot(band(got[j1] != a, got[j2] != b)), "concurrent-writes-on-one-connection-interleaved")
	if frames == 3 {
		cover("three-frames")
	}
}
