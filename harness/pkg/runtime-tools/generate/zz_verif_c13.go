package generate

// C13: applying an adjustment changes exactly what it names, deterministically.
// Pointwise pre/post oracles written from the statement; the real Generator.Adjust* and the
// runtime-tools generator methods below them are executed symbolically, over every map order.

import (
	rspec "github.com/opencontainers/runtime-spec/specs-go"
	rgen "github.com/opencontainers/runtime-tools/generate"

	nri "github.com/containerd/nri/pkg/api"
)

func newGen(spec *rspec.Spec) *Generator {
	return SpecGenerator(&rgen.Generator{Config: spec})
}

func baseSpec() *rspec.Spec {
	return &rspec.Spec{Process: &rspec.Process{}, Linux: &rspec.Linux{}}
}

// adjKeys: n adjustment keys, each either plain or '-'-marked (concrete choice, symbolic base).
type adjKey struct {
	base   string
	marked bool
	val    string
}

func (k adjKey) key() string {
	if k.marked {
		return "-" + k.base
	}
	return k.base
}

func symAdjKeys(n int) []adjKey {
	ks := make([]adjKey, n)
	for i := range ks {
		ks[i] = adjKey{base: nondetString(), val: nondetString()}
		assume(bnot(hasDash(ks[i].base)))
		if choose(2) == 1 {
			ks[i].marked = true
			shape("rm")
		} else {
			shape("set")
		}
	}
	return ks
}

// expectation for probe p given pre-state (has, val) and the adjustment: set wins over removal.
func expectKeyed(ks []adjKey, p string, preHas bool, preVal string) (bool, string) {
	has, val := preHas, preVal
	removed := false
	for _, k := range ks {
		if k.marked {
			removed = bor(removed, k.base == p)
		}
	}
	has = band(has, bnot(removed))
	// the last set of p in list order wins
	for _, k := range ks {
		if !k.marked {
			hit := k.base == p
			has = bor(has, hit)
			val = ifStr(hit, k.val, val)
		}
	}
	return has, val
}

// H_C13_annotations: <=2 existing annotations, <=2 adjustment entries (set / removal / both), all map orders.
//verif:property C13
//verif:expect-cover done
func H_C13_annotations() {
	spec := baseSpec()
	npre := choose(3)
	pk := make([]string, npre)
	pv := make([]string, npre)
	if npre > 0 {
		spec.Annotations = map[string]string{}
	}
	for i := 0; i < npre; i++ {
		pk[i], pv[i] = nondetString(), nondetString()
		for j := 0; j < i; j++ {
			assume(pk[i] != pk[j])
		}
		spec.Annotations[pk[i]] = pv[i]
	}
	ks := symAdjKeys(1 + choose(2))
	if len(ks) == 2 {
		// map keys are distinct
		assume(bor(ks[0].base != ks[1].base, ks[0].marked != ks[1].marked))
	}
	adj := map[string]string{}
	for _, k := range ks {
		adj[k.key()] = k.val
	}
	g := newGen(spec)
	err := g.AdjustAnnotations(adj)
	vassert(err == nil, "annotations-error")
	p := nondetString()
	preHas, preVal := false, ""
	for i := 0; i < npre; i++ {
		hit := pk[i] == p
		preHas = bor(preHas, hit)
		preVal = ifStr(hit, pv[i], preVal)
	}
	expHas, expVal := expectKeyed(ks, p, preHas, preVal)
	got, ok := g.Config.Annotations[p]
	if ok {
		vassert(expHas, "annotation-should-be-absent")
		vassert(bimp(expHas, got == expVal), "annotation-value")
	} else {
		vassert(bnot(expHas), "annotation-should-be-present")
	}
	cover("done")
}

// envKey/envVal split "K=v" at the first '='.
func envHas(env []string, p string) (bool, string) {
	has, val := false, ""
	for _, e := range env {
		hit := band(containsEq(e), envKeyOf(e) == p)
		has = bor(has, hit)
		val = ifStr(hit, envValOf(e), val)
	}
	return has, val
}

// H_C13_env: <=2 existing variables, <=2 adjustment entries in both list orders.
//verif:property C13
//verif:expect-cover done
func H_C13_env() {
	spec := baseSpec()
	npre := choose(3)
	pk := make([]string, npre)
	pv := make([]string, npre)
	for i := 0; i < npre; i++ {
		pk[i], pv[i] = nondetString(), nondetString()
		assume(pk[i] != "")
		assume(bnot(containsEq(pk[i])))
		for j := 0; j < i; j++ {
			assume(pk[i] != pk[j])
		}
		spec.Process.Env = append(spec.Process.Env, pk[i]+"="+pv[i])
	}
	ks := symAdjKeys(1 + choose(2))
	var adj []*nri.KeyValue
	for _, k := range ks {
		assume(k.base != "")
		assume(bnot(containsEq(k.base)))
		adj = append(adj, &nri.KeyValue{Key: k.key(), Value: k.val})
	}
	if len(ks) == 2 {
		// A-WF for one response: a key is not set twice
		assume(bnot(band(ks[0].base == ks[1].base, !ks[0].marked && !ks[1].marked)))
	}
	g := newGen(spec)
	g.AdjustEnv(adj)
	p := nondetString()
	assume(p != "")
	assume(bnot(containsEq(p)))
	preHas, preVal := false, ""
	for i := 0; i < npre; i++ {
		hit := pk[i] == p
		preHas = bor(preHas, hit)
		preVal = ifStr(hit, pv[i], preVal)
	}
	expHas, expVal := expectKeyed(ks, p, preHas, preVal)
	// exactly one entry "p=<expected value>" when expected, none starting with "p=" otherwise
	env := g.Config.Process.Env
	exact, prefixed := false, false
	for _, e := range env {
		exact = bor(exact, e == p+"="+expVal)
		prefixed = bor(prefixed, hasPrefixStr(e, p+"="))
	}
	vassert(bimp(expHas, exact), "env-value")
	vassert(bimp(bnot(expHas), bnot(prefixed)), "env-presence")
	// determinism of the list: two newly added variables appear in the order of the adjustment
	if len(ks) == 2 && !ks[0].marked && !ks[1].marked {
		bothNew := ks[0].base != ks[1].base
		for i := 0; i < npre; i++ {
			bothNew = band(bothNew, band(pk[i] != ks[0].base, pk[i] != ks[1].base))
		}
		s0, s1 := ks[0].base+"="+ks[0].val, ks[1].base+"="+ks[1].val
		seen0, inOrder := false, false
		for _, e := range env {
			inOrder = bor(inOrder, band(seen0, e == s1))
			seen0 = bor(seen0, e == s0)
		}
		vassert(bimp(bothNew, inOrder), "env-new-variables-order")
	}
	// no variable appears twice: at most one entry starts with "p="
	for i := range env {
		for j := i + 1; j < len(env); j++ {
			vassert(bnot(band(hasPrefixStr(env[i], p+"="), hasPrefixStr(env[j], p+"="))), "env-duplicate")
		}
	}
	cover("done")
}

// H_C13_env_noeq: an existing entry without '=' is not an adjusted item and must survive.
//verif:property C13
//verif:expect-cover done
func H_C13_env_noeq() {
	spec := baseSpec()
	raw := nondetString()
	assume(raw != "")
	assume(bnot(containsEq(raw)))
	spec.Process.Env = []string{raw}
	k := nondetString()
	assume(k != "")
	assume(bnot(containsEq(k)))
	assume(bnot(hasDash(k)))
	assume(k != raw)
	g := newGen(spec)
	g.AdjustEnv([]*nri.KeyValue{{Key: k, Value: nondetString()}})
	found := false
	for _, e := range g.Config.Process.Env {
		found = bor(found, e == raw)
	}
	shape("entry-without-equals")
	vassert(found, "env-entry-without-equals-dropped")
	cover("done")
}

// H_C13_devices: <=2 existing devices, <=2 adjustment entries in both list orders.
//verif:property C13
//verif:expect-cover done
func H_C13_devices() {
	spec := baseSpec()
	npre := choose(3)
	pk := make([]string, npre)
	pv := make([]string, npre)
	for i := 0; i < npre; i++ {
		pk[i], pv[i] = nondetString(), nondetString()
		for j := 0; j < i; j++ {
			assume(pk[i] != pk[j])
		}
		spec.Linux.Devices = append(spec.Linux.Devices, rspec.LinuxDevice{Path: pk[i], Type: pv[i]})
	}
	ks := symAdjKeys(1 + choose(2))
	var adj []*nri.LinuxDevice
	for _, k := range ks {
		adj = append(adj, &nri.LinuxDevice{Path: k.key(), Type: k.val, Major: nondetInt64(), Minor: nondetInt64()})
	}
	if len(ks) == 2 {
		assume(bnot(band(ks[0].base == ks[1].base, !ks[0].marked && !ks[1].marked)))
	}
	g := newGen(spec)
	g.AdjustDevices(adj)
	p := nondetString()
	preHas, preVal := false, ""
	for i := 0; i < npre; i++ {
		hit := pk[i] == p
		preHas = bor(preHas, hit)
		preVal = ifStr(hit, pv[i], preVal)
	}
	expHas, expVal := expectKeyed(ks, p, preHas, preVal)
	gotHas, gotVal := false, ""
	for _, d := range g.Config.Linux.Devices {
		hit := d.Path == p
		gotHas = bor(gotHas, hit)
		gotVal = ifStr(hit, d.Type, gotVal)
	}
	// every added device gets a cgroup rule with its own type and numbers, in order
	var sets []*nri.LinuxDevice
	for _, d := range adj {
		if _, marked := d.IsMarkedForRemoval(); !marked {
			sets = append(sets, d)
		}
	}
	var rules []rspec.LinuxDeviceCgroup
	if g.Config.Linux.Resources != nil {
		rules = g.Config.Linux.Resources.Devices
	}
	vassert(len(rules) == len(sets), "device-cgroup-rule-count")
	if len(rules) == len(sets) {
		for i, d := range sets {
			vassert(rules[i].Allow && rules[i].Type == d.Type, "device-cgroup-rule-type")
			vassert(rules[i].Major != nil && *rules[i].Major == d.Major, "device-cgroup-rule-major")
			vassert(rules[i].Minor != nil && *rules[i].Minor == d.Minor, "device-cgroup-rule-minor")
		}
	}
	vassert(gotHas == expHas, "device-presence")
	vassert(bimp(band(gotHas, expHas), gotVal == expVal), "device-value")
	cover("done")
}

var mountLattice = [...]string{"/a", "/a/b", "/a/b/c", "/b", "/b/c", "/"}

func isParentPath(par, child string) bool {
	if par == child {
		return false
	}
	if par == "/" {
		return true
	}
	return len(child) > len(par) && child[:len(par)] == par && child[len(par)] == '/'
}

// H_C13_mounts: existing mounts and adjustment destinations from a finite path lattice; set / removal in
// both list orders; afterwards every mount follows all mounts of its parent directories.
//verif:property C13
//verif:expect-cover done
func H_C13_mounts() {
	spec := baseSpec()
	npre := choose(3)
	pre := make([]int, npre)
	for i := 0; i < npre; i++ {
		pre[i] = choose(len(mountLattice))
		for j := 0; j < i; j++ {
			if pre[i] == pre[j] {
				assume(false)
			}
		}
		spec.Mounts = append(spec.Mounts, rspec.Mount{Destination: mountLattice[pre[i]], Source: nondetString()})
	}
	n := 1 + choose(2)
	dst := make([]int, n)
	marked := make([]bool, n)
	src := make([]string, n)
	var adj []*nri.Mount
	for i := 0; i < n; i++ {
		dst[i] = choose(len(mountLattice))
		marked[i] = choose(2) == 1
		if marked[i] {
			shape("rm")
		} else {
			shape("set")
		}
		src[i] = nondetString()
		d := mountLattice[dst[i]]
		if marked[i] {
			d = "-" + d
		}
		adj = append(adj, &nri.Mount{Destination: d, Source: src[i], Type: "bind"})
	}
	if n == 2 && dst[0] == dst[1] && !marked[0] && !marked[1] {
		assume(false)
	}
	if n == 2 && dst[0] == dst[1] {
		shape("samekey")
	}
	g := newGen(spec)
	err := g.AdjustMounts(adj)
	vassert(err == nil, "mounts-error")
	// pointwise on every lattice destination
	for li, dest := range mountLattice {
		preHas := false
		for i := 0; i < npre; i++ {
			if pre[i] == li {
				preHas = true
			}
		}
		expHas := preHas
		for i := 0; i < n; i++ {
			if dst[i] == li && marked[i] {
				expHas = false
			}
		}
		setSrc, isSet := "", false
		for i := 0; i < n; i++ {
			if dst[i] == li && !marked[i] {
				expHas, isSet, setSrc = true, true, src[i]
			}
		}
		cnt := 0
		gotSrc := ""
		for _, m := range g.Config.Mounts {
			if m.Destination == dest {
				cnt++
				gotSrc = m.Source
			}
		}
		if expHas {
			vassert(cnt == 1, "mount-should-be-present-once")
			if isSet && cnt == 1 {
				vassert(gotSrc == setSrc, "mount-source")
			}
		} else {
			vassert(cnt == 0, "mount-should-be-absent")
		}
	}
	// ordering: every mount comes after all mounts of its parent directories
	ms := g.Config.Mounts
	for i := range ms {
		for j := i + 1; j < len(ms); j++ {
			vassert(!isParentPath(ms[j].Destination, ms[i].Destination), "mount-before-parent")
		}
	}
	cover("done")
}

func i64p(v int64) *int64    { return &v }
func u64p(v uint64) *uint64  { return &v }

// H_C13_scalars: requested CPU, memory-limit, hugepage, unified, pids, cgroups-path, OOM-score, args appear
// with the requested values; everything not named is unchanged.
//verif:property C13
//verif:expect-cover done
func H_C13_scalars() {
	spec := baseSpec()
	// pre-state: arbitrary values for some of the fields
	preShares, preQuota := nondetUint64(), nondetInt64()
	preLimit := nondetInt64()
	spec.Linux.Resources = &rspec.LinuxResources{
		CPU:    &rspec.LinuxCPU{Shares: u64p(preShares), Quota: i64p(preQuota), Cpus: nondetString()},
		Memory: &rspec.LinuxMemory{Limit: i64p(preLimit), Reservation: i64p(nondetInt64())},
		Pids:   &rspec.LinuxPids{Limit: nondetInt64()},
	}
	preCpus := spec.Linux.Resources.CPU.Cpus
	preRes := *spec.Linux.Resources.Memory.Reservation
	prePids := spec.Linux.Resources.Pids.Limit
	spec.Linux.CgroupsPath = nondetString()
	preCg := spec.Linux.CgroupsPath
	spec.Process.Args = []string{nondetString()}
	preArg := spec.Process.Args[0]

	a := &nri.ContainerAdjustment{Linux: &nri.LinuxContainerAdjustment{Resources: &nri.LinuxResources{}}}
	res := a.Linux.Resources
	which := choose(10)
	var vU uint64 = nondetUint64()
	var vI int64 = nondetInt64()
	vS := nondetString()
	switch which {
	case 0:
		shape("cpu-shares")
		res.Cpu = &nri.LinuxCPU{Shares: &nri.OptionalUInt64{Value: vU}}
	case 1:
		shape("cpu-quota-period")
		res.Cpu = &nri.LinuxCPU{Quota: &nri.OptionalInt64{Value: vI}, Period: &nri.OptionalUInt64{Value: vU}}
	case 2:
		shape("cpu-rt")
		res.Cpu = &nri.LinuxCPU{RealtimeRuntime: &nri.OptionalInt64{Value: vI}, RealtimePeriod: &nri.OptionalUInt64{Value: vU}}
	case 3:
		shape("cpuset")
		assume(vS != "")
		res.Cpu = &nri.LinuxCPU{Cpus: vS, Mems: vS + "m"}
	case 4:
		shape("memory-limit")
		assume(vI != 0) // a requested limit of 0 is treated as unset by design (DESIGN C13 carve-out)
		res.Memory = &nri.LinuxMemory{Limit: &nri.OptionalInt64{Value: vI}}
	case 5:
		shape("hugepage")
		res.HugepageLimits = []*nri.HugepageLimit{{PageSize: vS, Limit: vU}}
	case 6:
		shape("unified")
		res.Unified = map[string]string{vS: "v"}
	case 7:
		shape("pids")
		res.Pids = &nri.LinuxPids{Limit: vI}
	case 8:
		shape("cgroups-oom")
		assume(vS != "")
		a.Linux.CgroupsPath = vS
		a.Linux.OomScoreAdj = &nri.OptionalInt{Value: vI}
	case 9:
		shape("args")
		a.Args = []string{vS, "x"}
	}
	g := newGen(spec)
	err := g.Adjust(a)
	vassert(err == nil, "adjust-error")
	if err != nil {
		return
	}
	r := g.Config.Linux.Resources
	vassert(r != nil && r.CPU != nil && r.Memory != nil && r.Pids != nil, "resources-lost")
	if r == nil || r.CPU == nil || r.Memory == nil || r.Pids == nil {
		return
	}
	// requested values
	switch which {
	case 0:
		vassert(r.CPU.Shares != nil && *r.CPU.Shares == vU, "cpu-shares")
	case 1:
		vassert(r.CPU.Quota != nil && *r.CPU.Quota == vI, "cpu-quota")
		vassert(r.CPU.Period != nil && *r.CPU.Period == vU, "cpu-period")
	case 2:
		vassert(r.CPU.RealtimeRuntime != nil && *r.CPU.RealtimeRuntime == vI, "cpu-rtruntime")
		vassert(r.CPU.RealtimePeriod != nil && *r.CPU.RealtimePeriod == vU, "cpu-rtperiod")
	case 3:
		vassert(r.CPU.Cpus == vS, "cpu-cpus")
		vassert(r.CPU.Mems == vS+"m", "cpu-mems")
	case 4:
		vassert(r.Memory.Limit != nil && *r.Memory.Limit == vI, "memory-limit")
	case 5:
		vassert(len(r.HugepageLimits) == 1 && r.HugepageLimits[0].Pagesize == vS && r.HugepageLimits[0].Limit == vU, "hugepage")
	case 6:
		vassert(len(r.Unified) == 1 && r.Unified[vS] == "v", "unified")
	case 7:
		vassert(r.Pids.Limit == vI, "pids")
	case 8:
		vassert(g.Config.Linux.CgroupsPath == vS, "cgroups-path")
		vassert(g.Config.Process.OOMScoreAdj != nil && int64(*g.Config.Process.OOMScoreAdj) == vI, "oom-score")
	case 9:
		vassert(len(g.Config.Process.Args) == 2 && g.Config.Process.Args[0] == vS, "args")
	}
	// everything not named is unchanged
	if which != 0 {
		vassert(r.CPU.Shares != nil && *r.CPU.Shares == preShares, "untouched-cpu-shares")
	}
	if which != 1 {
		vassert(r.CPU.Quota != nil && *r.CPU.Quota == preQuota, "untouched-cpu-quota")
	}
	if which != 3 {
		vassert(r.CPU.Cpus == preCpus, "untouched-cpus")
	}
	if which != 4 {
		vassert(r.Memory.Limit != nil && *r.Memory.Limit == preLimit, "untouched-memory-limit")
	}
	vassert(r.Memory.Reservation != nil && *r.Memory.Reservation == preRes, "untouched-memory-reservation")
	if which != 7 {
		vassert(r.Pids.Limit == prePids, "untouched-pids")
	}
	if which != 8 {
		vassert(g.Config.Linux.CgroupsPath == preCg, "untouched-cgroups-path")
		vassert(g.Config.Process.OOMScoreAdj == nil, "untouched-oom")
	}
	if which != 9 {
		vassert(len(g.Config.Process.Args) == 1 && g.Config.Process.Args[0] == preArg, "untouched-args")
	}
	vassert(len(g.Config.Annotations) == 0 && len(g.Config.Mounts) == 0 && len(g.Config.Process.Env) == 0, "untouched-collections")
	cover("done")
}

// H_C13_hooks_rlimits_cdi: hooks of all six stages and rlimits are appended in order, CDI names are
// handed to the injector in order.
//verif:property C13
//verif:expect-cover done
func H_C13_hooks_rlimits_cdi() {
	spec := baseSpec()
	pre := rspec.Hook{Path: nondetString()}
	spec.Hooks = &rspec.Hooks{Prestart: []rspec.Hook{pre}}
	spec.Process.Rlimits = []rspec.POSIXRlimit{{Type: nondetString(), Hard: nondetUint64(), Soft: nondetUint64()}}
	preRl := spec.Process.Rlimits[0]
	h1, h2 := &nri.Hook{Path: nondetString()}, &nri.Hook{Path: nondetString(), Args: []string{nondetString()}}
	stage := choose(6)
	hooks := &nri.Hooks{}
	switch stage {
	case 0:
		hooks.Prestart = []*nri.Hook{h1, h2}
	case 1:
		hooks.Poststart = []*nri.Hook{h1, h2}
	case 2:
		hooks.Poststop = []*nri.Hook{h1, h2}
	case 3:
		hooks.CreateRuntime = []*nri.Hook{h1, h2}
	case 4:
		hooks.CreateContainer = []*nri.Hook{h1, h2}
	case 5:
		hooks.StartContainer = []*nri.Hook{h1, h2}
	}
	rl := &nri.POSIXRlimit{Type: nondetString(), Hard: nondetUint64(), Soft: nondetUint64()}
	c1, c2 := nondetString(), nondetString()
	var injected []string
	g := SpecGenerator(&rgen.Generator{Config: spec}, WithCDIDeviceInjector(func(s *rspec.Spec, names []string) error {
		injected = names
		return nil
	}))
	a := &nri.ContainerAdjustment{Hooks: hooks, Rlimits: []*nri.POSIXRlimit{rl}, CDIDevices: []*nri.CDIDevice{{Name: c1}, {Name: c2}}}
	err := g.Adjust(a)
	vassert(err == nil, "adjust-error")
	hs := g.Config.Hooks
	vassert(hs != nil, "hooks-nil")
	if hs == nil {
		return
	}
	lists := [][]rspec.Hook{hs.Prestart, hs.Poststart, hs.Poststop, hs.CreateRuntime, hs.CreateContainer, hs.StartContainer}
	for i, l := range lists {
		want := 0
		if i == 0 {
			want = 1
		}
		if i == stage {
			want += 2
		}
		vassert(len(l) == want, "hooks-count")
		if len(l) == want && i == stage {
			vassert(l[want-2].Path == h1.Path && l[want-1].Path == h2.Path, "hooks-order")
			vassert(len(l[want-1].Args) == 1 && l[want-1].Args[0] == h2.Args[0], "hook-args")
		}
	}
	vassert(hs.Prestart[0].Path == pre.Path, "existing-hook-kept")
	rls := g.Config.Process.Rlimits
	vassert(len(rls) == 2, "rlimits-count")
	if len(rls) == 2 {
		vassert(rls[0] == preRl, "existing-rlimit-kept")
		vassert(rls[1].Type == rl.Type && rls[1].Hard == rl.Hard && rls[1].Soft == rl.Soft, "rlimit-appended")
	}
	vassert(len(injected) == 2 && injected[0] == c1 && injected[1] == c2, "cdi-names")
	cover("done")
}

// H_C13_cpu_fields: every CPU field of an adjustment is independent of the others: the spec starts with all
// seven CPU fields set (arbitrary values); the adjustment names an arbitrary subset of them (each present or
// not, 128 combinations) with arbitrary values; afterwards every named field carries the requested value and
// every other one still its old value.
//verif:property C13
//verif:expect-cover done
func H_C13_cpu_fields() {
	spec := baseSpec()
	pre := &rspec.LinuxCPU{Shares: u64p(nondetUint64()), Quota: i64p(nondetInt64()), Period: u64p(nondetUint64()),
		RealtimeRuntime: i64p(nondetInt64()), RealtimePeriod: u64p(nondetUint64()), Cpus: nondetString(), Mems: nondetString()}
	preShares, preQuota, prePeriod, preRtR, preRtP, preCpus, preMems := *pre.Shares, *pre.Quota, *pre.Period, *pre.RealtimeRuntime, *pre.RealtimePeriod, pre.Cpus, pre.Mems
	spec.Linux.Resources = &rspec.LinuxResources{CPU: pre}
	cpu := &nri.LinuxCPU{}
	vShares, vQuota, vPeriod, vRtR, vRtP := nondetUint64(), nondetInt64(), nondetUint64(), nondetInt64(), nondetUint64()
	vCpus, vMems := nondetString(), nondetString()
	assume(vCpus != "")
	assume(vMems != "")
	var set [7]bool
	for i := range set {
		set[i] = nondetBool()
	}
	if set[0] {
		cpu.Shares = &nri.OptionalUInt64{Value: vShares}
	}
	if set[1] {
		cpu.Quota = &nri.OptionalInt64{Value: vQuota}
	}
	if set[2] {
		cpu.Period = &nri.OptionalUInt64{Value: vPeriod}
	}
	if set[3] {
		cpu.RealtimeRuntime = &nri.OptionalInt64{Value: vRtR}
	}
	if set[4] {
		cpu.RealtimePeriod = &nri.OptionalUInt64{Value: vRtP}
	}
	if set[5] {
		cpu.Cpus = vCpus
	}
	if set[6] {
		cpu.Mems = vMems
	}
	g := newGen(spec)
	err := g.Adjust(&nri.ContainerAdjustment{Linux: &nri.LinuxContainerAdjustment{Resources: &nri.LinuxResources{Cpu: cpu}}})
	vassert(err == nil, "adjust-error")
	r := g.Config.Linux.Resources
	vassert(r != nil && r.CPU != nil, "resources-lost")
	if err != nil || r == nil || r.CPU == nil {
		return
	}
	c := r.CPU
	vassert(c.Shares != nil && c.Quota != nil && c.Period != nil && c.RealtimeRuntime != nil && c.RealtimePeriod != nil, "cpu-field-lost")
	if c.Shares == nil || c.Quota == nil || c.Period == nil || c.RealtimeRuntime == nil || c.RealtimePeriod == nil {
		return
	}
	vassert(*c.Shares == ifU64(set[0], vShares, preShares), "cpu-shares")
	vassert(*c.Quota == ifI64(set[1], vQuota, preQuota), "cpu-quota")
	vassert(*c.Period == ifU64(set[2], vPeriod, prePeriod), "cpu-period")
	vassert(*c.RealtimeRuntime == ifI64(set[3], vRtR, preRtR), "cpu-rtruntime")
	vassert(*c.RealtimePeriod == ifU64(set[4], vRtP, preRtP), "cpu-rtperiod")
	vassert(c.Cpus == ifStr(set[5], vCpus, preCpus), "cpu-cpus")
	vassert(c.Mems == ifStr(set[6], vMems, preMems), "cpu-mems")
	cover("done")
}

func ifU64(c bool, a, b uint64) uint64 {
	if c {
		return a
	}
	return b
}

func ifI64(c bool, a, b int64) int64 {
	if c {
		return a
	}
	return b
}
