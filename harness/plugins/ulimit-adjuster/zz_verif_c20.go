package main

// C20 (ulimit-adjuster): container-scoped annotation only; rlimit names normalised; unknown types and
// hard < soft fail the request without a partial adjustment. YAML decoding is an environment stub.

import (
	"context"
	"errors"

	"github.com/containerd/nri/pkg/api"
	"sigs.k8s.io/yaml"
)

type yamlEnv struct {
	payloads []string
	fail     bool
	uls      []ulimit
}

var yenv *yamlEnv

func verifYAML(data []byte, out interface{}, opts ...yaml.JSONOpt) error {
	yenv.payloads = append(yenv.payloads, string(data))
	if yenv.fail {
		return errors.New("malformed ulimit annotation")
	}
	if o, ok := out.(*[]ulimit); ok {
		*o = yenv.uls
	}
	return nil
}

// candidate type strings (concrete: ToUpper on an unbounded symbolic string is out of reach) with the
// normalised name expected by the statement ("" = invalid)
var typeCands = [...]string{"nofile", "RLIMIT_NOFILE", "rlimit_core", "Core", "RLIMIT_memlock", "bogus", "RLIMIT_", "", "NOFILE ", "RLIMIT_RLIMIT_CPU", "rttime", "sigpending"}
var typeNorm = [...]string{"RLIMIT_NOFILE", "RLIMIT_NOFILE", "RLIMIT_CORE", "RLIMIT_CORE", "RLIMIT_MEMLOCK", "", "", "", "", "", "RLIMIT_RTTIME", "RLIMIT_SIGPENDING"}

// H_C20_ulimits: <=3 annotations with arbitrary keys; <=2 decoded ulimits.
//verif:property C20
//verif:cut sigs.k8s.io/yaml.Unmarshal => verifYAML
//verif:expect-cover adjusted none error
func H_C20_ulimits() {
	ctrName := nondetString()
	n := 1 + choose(3)
	keys := make([]string, n)
	vals := []string{"payload-0", "payload-1", "payload-2"}[:n]
	ann := map[string]string{}
	for i := 0; i < n; i++ {
		keys[i] = nondetString()
		for j := 0; j < i; j++ {
			assume(keys[i] != keys[j])
		}
		ann[keys[i]] = vals[i]
	}
	y := &yamlEnv{fail: nondetBool()}
	yenv = y
	nu := choose(3)
	tix := make([]int, nu)
	for i := 0; i < nu; i++ {
		tix[i] = choose(len(typeCands))
		y.uls = append(y.uls, ulimit{Type: typeCands[tix[i]], Hard: nondetUint64(), Soft: nondetUint64()})
	}
	hard := make([]uint64, nu)
	soft := make([]uint64, nu)
	for i := range y.uls {
		hard[i], soft[i] = y.uls[i].Hard, y.uls[i].Soft
	}
	p := &plugin{}
	adj, upd, err := p.CreateContainer(context.Background(), &api.PodSandbox{Name: "pod", Annotations: ann}, &api.Container{Name: ctrName})
	vassert(upd == nil, "unexpected-updates")

	// reference: only the container-scoped key counts
	want := ulimitKey + "/container." + ctrName
	has, val := false, ""
	for i := range keys {
		hit := keys[i] == want
		has = bor(has, hit)
		val = ifStr(hit, vals[i], val)
	}
	if !has {
		cover("none")
		vassert(len(y.payloads) == 0, "annotation-for-another-container-used")
		vassert(err == nil && adj != nil && len(adj.Rlimits) == 0, "adjustment-without-annotation")
		return
	}
	vassert(len(y.payloads) == 1 && y.payloads[0] == val, "wrong-annotation-selected")
	expErr := y.fail
	if !expErr {
		for i := 0; i < nu; i++ {
			if typeNorm[tix[i]] == "" {
				expErr = true
			}
		}
	}
	if expErr {
		cover("error")
		vassert(err != nil, "invalid-annotation-accepted")
		vassert(adj == nil, "partial-adjustment-with-error")
		return
	}
	// hard < soft on any entry fails the request
	bad := false
	for i := 0; i < nu; i++ {
		bad = bor(bad, hard[i] < soft[i])
	}
	if err != nil {
		vassert(bad, "valid-ulimits-rejected")
		vassert(adj == nil, "partial-adjustment-with-error")
		cover("error")
		return
	}
	vassert(bnot(bad), "hard-below-soft-accepted")
	cover("adjusted")
	vassert(adj != nil && len(adj.Rlimits) == nu, "rlimit-count")
	if adj != nil && len(adj.Rlimits) == nu {
		for i := 0; i < nu; i++ {
			g := adj.Rlimits[i]
			vassert(g.Type == typeNorm[tix[i]], "rlimit-type-normalisation")
			vassert(g.Hard == hard[i] && g.Soft == soft[i], "rlimit-values")
		}
	}
}
