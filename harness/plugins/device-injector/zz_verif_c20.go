package main

// C20 (device-injector): the adjustment is exactly what the most specific matching annotation says.
// The YAML decoder is an environment stub: it records the payload it was handed and returns an
// arbitrary decoded slice (<=2 elements, every field symbolic) or an error.

import (
	"context"
	"errors"

	"github.com/containerd/nri/pkg/api"
	"sigs.k8s.io/yaml"
)

type yamlEnv struct {
	payloads []string
	fail     [3]bool // devices, cdi, mounts
	devs     []device
	cdis     []string
	mnts     []mount
}

var yenv *yamlEnv

// verifYAML replaces sigs.k8s.io/yaml.Unmarshal.
func verifYAML(data []byte, out interface{}, opts ...yaml.JSONOpt) error {
	yenv.payloads = append(yenv.payloads, string(data))
	switch o := out.(type) {
	case *[]device:
		if yenv.fail[0] {
			return errors.New("malformed device annotation")
		}
		*o = yenv.devs
	case *[]string:
		if yenv.fail[1] {
			return errors.New("malformed CDI annotation")
		}
		*o = yenv.cdis
	case *[]mount:
		if yenv.fail[2] {
			return errors.New("malformed mount annotation")
		}
		*o = yenv.mnts
	}
	return nil
}

// refLookup: reference for "the annotation that most specifically names the container":
// <key>/container.<name>, then <key>/pod, then <key>.
func refLookup(keys, vals []string, mainKey, ctr string) (bool, string) {
	has, val := false, ""
	cands := []string{mainKey, mainKey + "/pod", mainKey + "/container." + ctr} // least specific first
	for _, c := range cands {
		for i := range keys {
			hit := keys[i] == c
			has = bor(has, hit)
			val = ifStr(hit, vals[i], val)
		}
	}
	return has, val
}

// H_C20_injector: pod annotations are a map with <=3 entries whose keys are arbitrary strings, so keys for
// this container, for containers whose names extend or prefix this one, pod scope and bare keys all arise.
//verif:property C20
//verif:instances 2
//verif:quick-instances 0
//verif:thorough-instances 0
//verif:cut sigs.k8s.io/yaml.Unmarshal => verifYAML
//verif:expect-cover selected none error
func H_C20_injector() {
	// instance 0: <=2 annotations, <=1 decoded element per kind; instance 1 (thorough): <=3 and <=2
	maxAnn, maxEl := 2, 2
	if instance() == 1 {
		maxAnn, maxEl = 3, 3
	}
	ctrName := nondetString()
	n := maxAnn
	if instance() == 1 {
		n = 1 + choose(maxAnn)
	}
	keys := make([]string, n)
	vals := []string{"payload-0", "payload-1", "payload-2"}[:n]
	ann := map[string]string{}
	for i := 0; i < n; i++ {
		keys[i] = nondetString()
		for j := 0; j < i; j++ {
			assume(keys[i] != keys[j])
		}
		// a present but empty annotation still is the most specific one (decided lazily by the solver)
		vals[i] = ifStr(nondetBool(), "", vals[i])
		ann[keys[i]] = vals[i]
	}
	pod := &api.PodSandbox{Name: "pod", Annotations: ann}
	ctr := &api.Container{Name: ctrName}
	y := &yamlEnv{}
	yenv = y
	nd := maxEl - 1
	if instance() == 1 {
		nd = choose(maxEl)
	}
	for i := 0; i < nd; i++ {
		y.devs = append(y.devs, device{Path: nondetString(), Type: nondetString(), Major: nondetInt64(), Minor: nondetInt64(),
			FileMode: nondetUint32(), UID: nondetUint32(), GID: nondetUint32()})
	}
	nc := maxEl - 1
	if instance() == 1 {
		nc = choose(maxEl)
	}
	for i := 0; i < nc; i++ {
		y.cdis = append(y.cdis, nondetString())
	}
	nm := maxEl - 1
	if instance() == 1 {
		nm = choose(maxEl)
	}
	for i := 0; i < nm; i++ {
		y.mnts = append(y.mnts, mount{Source: nondetString(), Destination: nondetString(), Type: nondetString(), Options: []string{nondetString()}})
	}
	failing := choose(4) // 0: none, 1..3: that decoder fails
	if failing > 0 {
		y.fail[failing-1] = true
	}
	p := &plugin{}
	adj, upd, err := p.CreateContainer(context.Background(), pod, ctr)

	dHas, dVal := refLookup(keys, vals, deviceKey, ctrName)
	cHas, cVal := refLookup(keys, vals, cdiDeviceKey, ctrName)
	mHas, mVal := refLookup(keys, vals, mountKey, ctrName)

	// which payloads reached the decoder, in order devices, CDI, mounts (a failing decoder stops the chain)
	want := []string{}
	wantHas := []bool{dHas, cHas, mHas}
	wantVal := []string{dVal, cVal, mVal}
	_ = want
	pi := 0
	stopped := false
	expErr := false
	for k := 0; k < 3; k++ {
		if stopped {
			break
		}
		// wantHas[k] is a solver term: both cases are explored by the branch below
		if wantHas[k] {
			vassert(pi < len(y.payloads), "annotation-not-decoded")
			if pi < len(y.payloads) {
				vassert(y.payloads[pi] == wantVal[k], "wrong-annotation-selected")
			}
			pi++
			if y.fail[k] {
				stopped, expErr = true, true
			}
		}
	}
	vassert(pi == len(y.payloads), "unexpected-annotation-decoded")
	vassert(upd == nil, "unexpected-updates")
	if expErr {
		cover("error")
		vassert(err != nil, "malformed-annotation-accepted")
		vassert(adj == nil, "partial-adjustment-with-error")
		return
	}
	vassert(err == nil, "unexpected-error")
	vassert(adj != nil, "no-adjustment")
	if adj == nil {
		return
	}
	if pi == 0 {
		cover("none")
	} else {
		cover("selected")
	}
	// field-by-field image of the decoded elements
	var gotDevs []*api.LinuxDevice
	if adj.Linux != nil {
		gotDevs = adj.Linux.Devices
	}
	if dHas {
		vassert(len(gotDevs) == len(y.devs), "device-count")
		if len(gotDevs) == len(y.devs) {
			for i, d := range y.devs {
				g := gotDevs[i]
				vassert(g.Path == d.Path && g.Type == d.Type && g.Major == d.Major && g.Minor == d.Minor, "device-fields")
				if d.FileMode != 0 {
					vassert(g.FileMode != nil && g.FileMode.Value == d.FileMode, "device-mode")
				} else {
					vassert(g.FileMode == nil, "device-mode-should-be-unset")
				}
				if d.UID != 0 {
					vassert(g.Uid != nil && g.Uid.Value == d.UID, "device-uid")
				} else {
					vassert(g.Uid == nil, "device-uid-should-be-unset")
				}
				if d.GID != 0 {
					vassert(g.Gid != nil && g.Gid.Value == d.GID, "device-gid")
				} else {
					vassert(g.Gid == nil, "device-gid-should-be-unset")
				}
			}
		}
	} else {
		vassert(len(gotDevs) == 0, "devices-without-annotation")
	}
	if cHas {
		vassert(len(adj.CDIDevices) == len(y.cdis), "cdi-count")
		if len(adj.CDIDevices) == len(y.cdis) {
			for i := range y.cdis {
				vassert(adj.CDIDevices[i].Name == y.cdis[i], "cdi-name")
			}
		}
	} else {
		vassert(len(adj.CDIDevices) == 0, "cdi-without-annotation")
	}
	if mHas {
		vassert(len(adj.Mounts) == len(y.mnts), "mount-count")
		if len(adj.Mounts) == len(y.mnts) {
			for i, m := range y.mnts {
				g := adj.Mounts[i]
				vassert(g.Source == m.Source && g.Destination == m.Destination && g.Type == m.Type, "mount-fields")
				vassert(len(g.Options) == 1 && g.Options[0] == m.Options[0], "mount-options")
			}
		}
	} else {
		vassert(len(adj.Mounts) == 0, "mounts-without-annotation")
	}
}
